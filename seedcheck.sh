#!/bin/bash
# usage: seedcheck.sh <worktree with the change applied | patch file> <PROP...>
# Runs the quick checks of the listed properties against a changed tree without touching /repo:
# a worktree is used directly (VERIF_REPO); a patch file is applied to a throw-away worktree first.
T=$1; shift
if [ -f "$T" ]; then
  W=/tmp/seedwt-$$; git -C /repo worktree add -q --detach $W HEAD || exit 2
  trap 'git -C /repo worktree remove --force '$W' >/dev/null 2>&1; rm -rf /tmp/seedout-'$$'' EXIT
  git -C $W apply "$T" || { echo "patch does not apply"; exit 2; }
else
  W=$T; trap 'rm -rf /tmp/seedout-'$$'' EXIT
fi
cd "$(cd "$(dirname "$0")" && pwd)"
for ID in "$@"; do
  out=$(VERIF_REPO=$W VERIF_OUT=/tmp/seedout-$$ ./check $ID --tier ${TIER:-quick} 2>&1); rc=$?
  echo "$ID exit=$rc :: $(echo "$out" | grep -E '^  oracle=|^HARNESS' | sed 's/^  //' | cut -c1-150 | head -4 | tr '\n' '|')"
done
