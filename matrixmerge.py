#!/usr/bin/env python3
# usage: matrixmerge.py <MATRIX.md> <partial.md>...  - rows of the partial tables replace / extend the rows of MATRIX.md
import sys, re
base = open(sys.argv[1]).read().split("\n")
head = [l for l in base if not l.startswith("| C")]
rows = {l.split("|")[1].strip(): l for l in base if l.startswith("| C")}
notes = []
for f in sys.argv[2:]:
    t = open(f).read().split("\n")
    notes.append(t[0])
    for l in t:
        if l.startswith("| C"):
            rows[l.split("|")[1].strip()] = l
hdr = [l for l in head if l.strip()]
first = hdr[0]
for n in notes:
    m = re.search(r"of /repo \((\w+)\).*/verif (\w+)", n)
    if m and m.group(0) not in first:
        first += " Rows re-run later: /repo %s, /verif %s." % (m.group(1), m.group(2))
out = [first, ""] + hdr[1:3] + [rows[k] for k in sorted(rows)]
open(sys.argv[1], "w").write("\n".join(out) + "\n")
print(len(rows), "rows,", sum("MISSED" in r for r in rows.values()), "missed")
