#!/usr/bin/env python3
# usage: store_seed.py <worktree> <seed id> <property> <demo file> <demo pkg dir> <go test -run regex> <needs> <caught_by csv> [missed_by csv] [note]
import sys, json, os, shutil, subprocess
wt, sid, prop, demo, pkg, run, needs, caught = sys.argv[1:9]
missed = sys.argv[9] if len(sys.argv) > 9 else ""
note = sys.argv[10] if len(sys.argv) > 10 else ""
d = f"/verif/seeded/{sid}"
os.makedirs(d, exist_ok=True)
shutil.copy(f"{wt}/_mutant/patch.diff", f"{d}/patch.diff")
shutil.copy(f"{wt}/_mutant/{demo}", f"{d}/{os.path.basename(demo)}")
if os.path.exists(f"{wt}/_mutant/notes.md"):
    shutil.copy(f"{wt}/_mutant/notes.md", f"{d}/notes.md")
head = subprocess.run(["git", "-C", "/repo", "rev-parse", "--short", "HEAD"], capture_output=True, text=True).stdout.strip()
meta = {
    "id": sid, "breaks_property": prop, "base_commit": head,
    "needs_to_manifest": needs,
    "demonstration": {"file": os.path.basename(demo), "place_in": pkg, "run": f"GOFLAGS=-mod=mod GOPROXY=off GOSUMDB=off go test -vet=off -count=1 -run '{run}' ./{pkg}/"},
    "confirmed": "confirm_mutant.sh in a fresh scratch worktree: patch applies to HEAD; the repository's own tests pass with it; the demonstration passes without the change and fails with it",
    "checks_run": os.environ.get("CHECKS_RUN", "seedcheck.sh <worktree> <all 17 properties> (quick tier, VERIF_SEED=1)"),
    "caught_by": [c for c in caught.split(",") if c],
    "missed_by_own_check_before_strengthening": [c for c in missed.split(",") if c],
    "note": note,
}
json.dump(meta, open(f"{d}/meta.json", "w"), indent=1)
print("stored", d)
