module verif/instrument

go 1.22
