// instrument copies a Go module tree (the working tree of the repository under test) to a
// scratch directory and rewrites the non-test files of its packages so that a simulator can
// own scheduling, disk and database access:
//
//	verifhook.Hit(site)                   before every statement (stateful packages only)
//	verifhook.BeforeLock(&x, write, site) before every statement x.Lock() / x.RLock()
//	go f(a..)  ->  tok := verifhook.Spawn(site); go func(){ verifhook.Adopt(tok); defer verifhook.TaskEnd(); f(a..) }()
//	os.X(...)  ->  verifhook.OsX(...)     (all packages)
//	leveldb.OpenFile -> verifhook.OpenLevelDB
//	for k, v := range <map[string]T>  ->  iteration in sorted key order (any order is legal Go)
//
// plus a generated package <module>/verifhook whose functions pass through until a runtime is
// installed. Only the standard library is used.
package main

import (
	"bytes"
	_ "embed"
	"fmt"
	"go/ast"
	"go/format"
	"go/parser"
	"go/token"
	"go/types"
	"io/fs"
	"os"
	"path/filepath"
	"sort"
	"strconv"
	"strings"
)

//go:embed hook.go.txt
var hookTemplate string

var modPath string

// packages whose statements get yield hooks (they hold state, take locks, spawn goroutines or do I/O)
var stmtPkgs = map[string]bool{
	".": true, "crl": true, "crl/crlrepository": true, "crl/crlstore": true, "crl/crlloader": true,
	"crl/crlreader": true, "ocsp": true, "core/utils": true,
}

var osFuncs = map[string]bool{"Rename": true, "Remove": true, "RemoveAll": true, "Mkdir": true, "MkdirAll": true,
	"Open": true, "OpenFile": true, "Create": true, "CreateTemp": true, "Stat": true, "ReadFile": true}

type site struct {
	File string
	Line int
	Func string
	Kind string
}

var sites []site

func newSite(fset *token.FileSet, rel string, pos token.Pos, fn, kind string) ast.Expr {
	sites = append(sites, site{rel, fset.Position(pos).Line, fn, kind})
	return &ast.BasicLit{Kind: token.INT, Value: strconv.Itoa(len(sites) - 1)}
}

func hookCall(name string, args ...ast.Expr) *ast.CallExpr {
	return &ast.CallExpr{Fun: &ast.SelectorExpr{X: ast.NewIdent("verifhook"), Sel: ast.NewIdent(name)}, Args: args}
}

type rewriter struct {
	fset     *token.FileSet
	rel      string
	fn       string
	tmpN     int
	usedOS   bool
	usedDB   bool
	hooked   bool
	stmtHook bool
	info     *types.Info
}

func addressable(e ast.Expr) bool {
	switch v := e.(type) {
	case *ast.Ident:
		return true
	case *ast.SelectorExpr:
		return addressable(v.X)
	case *ast.ParenExpr:
		return addressable(v.X)
	case *ast.StarExpr:
		return true
	}
	return false
}

func lockCall(s ast.Stmt) (se *ast.SelectorExpr, write bool, ok bool) {
	es, isEs := s.(*ast.ExprStmt)
	if !isEs {
		return nil, false, false
	}
	ce, isCe := es.X.(*ast.CallExpr)
	if !isCe || len(ce.Args) != 0 {
		return nil, false, false
	}
	se, isSe := ce.Fun.(*ast.SelectorExpr)
	if !isSe {
		return nil, false, false
	}
	switch se.Sel.Name {
	case "Lock":
		return se, true, true
	case "RLock":
		return se, false, true
	}
	return nil, false, false
}

// unlockCall: is the statement a plain x.Unlock() / x.RUnlock() call?
func unlockCall(s ast.Stmt) bool {
	es, ok := s.(*ast.ExprStmt)
	if !ok {
		return false
	}
	ce, ok := es.X.(*ast.CallExpr)
	if !ok {
		return false
	}
	se, ok := ce.Fun.(*ast.SelectorExpr)
	return ok && (se.Sel.Name == "Unlock" || se.Sel.Name == "RUnlock")
}

func deferredUnlock(d *ast.DeferStmt) bool {
	se, ok := d.Call.Fun.(*ast.SelectorExpr)
	return ok && len(d.Call.Args) == 0 && (se.Sel.Name == "Unlock" || se.Sel.Name == "RUnlock")
}

func (r *rewriter) stmts(list []ast.Stmt) []ast.Stmt {
	out := make([]ast.Stmt, 0, 2*len(list))
	prevUnlock, prevLock := false, false
	for _, s := range list {
		afterUnlock, afterLock := prevUnlock, prevLock
		prevUnlock = unlockCall(s)
		_, _, prevLock = lockCall(s)
		if r.stmtHook {
			if se, write, ok := lockCall(s); ok {
				r.hooked = true
				w := "false"
				if write {
					w = "true"
				}
				st := newSite(r.fset, r.rel, s.Pos(), r.fn, "lock")
				if addressable(se.X) {
					out = append(out, &ast.ExprStmt{X: hookCall("BeforeLock", &ast.UnaryExpr{Op: token.AND, X: se.X}, ast.NewIdent(w), st)})
					out = append(out, s)
				} else {
					// bind the (pointer-valued) operand once, hook, then lock through the temporary
					r.tmpN++
					tmp := ast.NewIdent(fmt.Sprintf("__vm%d", r.tmpN))
					r.expr(se.X)
					out = append(out, &ast.AssignStmt{Lhs: []ast.Expr{tmp}, Tok: token.DEFINE, Rhs: []ast.Expr{se.X}})
					out = append(out, &ast.ExprStmt{X: hookCall("BeforeLock", tmp, ast.NewIdent(w), st)})
					out = append(out, &ast.ExprStmt{X: &ast.CallExpr{Fun: &ast.SelectorExpr{X: tmp, Sel: se.Sel}}})
				}
				continue
			}
			r.hooked = true
			kind := "stmt"
			if afterUnlock {
				kind = "unlocked" // the statement right after a lock was given up: where check-then-act windows open
			}
			if afterLock {
				kind = "locked" // the statement right after a lock was taken: a task held back here keeps the lock busy
			}
			out = append(out, &ast.ExprStmt{X: hookCall("Hit", newSite(r.fset, r.rel, s.Pos(), r.fn, kind))})
			if d, ok := s.(*ast.DeferStmt); ok && deferredUnlock(d) {
				// a lock given up by a deferred call is given up when the function returns: a deferred hook registered
				// just BEFORE it runs just AFTER it, which is where the caller's check-then-act window opens
				out = append(out, &ast.DeferStmt{Call: hookCall("Hit", newSite(r.fset, r.rel, s.Pos(), r.fn, "unlocked"))})
			}
			if g, ok := s.(*ast.GoStmt); ok {
				out = append(out, r.goStmt(g))
				continue
			}
		}
		if rs, ok := s.(*ast.RangeStmt); ok {
			if repl := r.sortedRange(rs); repl != nil {
				out = append(out, repl)
				continue
			}
		}
		r.stmt(s)
		out = append(out, s)
	}
	return out
}

// sortedRange rewrites `for k, v := range m` over a map with string keys into an iteration over
// the sorted key slice. Returns nil when the statement is not such a loop or types are unknown.
func (r *rewriter) sortedRange(rs *ast.RangeStmt) ast.Stmt {
	if r.info == nil {
		return nil
	}
	tv, ok := r.info.Types[rs.X]
	if !ok || tv.Type == nil {
		return nil
	}
	mt, ok := tv.Type.Underlying().(*types.Map)
	if !ok {
		return nil
	}
	bt, ok := mt.Key().Underlying().(*types.Basic)
	if !ok || bt.Kind() != types.String {
		return nil
	}
	if rs.Tok != token.DEFINE && (rs.Key != nil || rs.Value != nil) {
		return nil // assignment form: leave alone
	}
	r.hooked = true
	r.tmpN++
	mv := ast.NewIdent(fmt.Sprintf("__vr%d", r.tmpN))
	kv := ast.NewIdent(fmt.Sprintf("__vk%d", r.tmpN))
	r.expr(rs.X)
	r.stmt(rs.Body)
	var pre []ast.Stmt
	keyIsBlank := rs.Key == nil
	if id, ok := rs.Key.(*ast.Ident); ok && id.Name == "_" {
		keyIsBlank = true
	}
	valIsBlank := rs.Value == nil
	if id, ok := rs.Value.(*ast.Ident); ok && id.Name == "_" {
		valIsBlank = true
	}
	// value, present := m[k]; if !present { continue }  (entries deleted during iteration are skipped, as Go does)
	pv := ast.NewIdent(fmt.Sprintf("__vp%d", r.tmpN))
	var valLhs ast.Expr = ast.NewIdent("_")
	if !valIsBlank {
		valLhs = rs.Value
	}
	pre = append(pre, &ast.AssignStmt{Lhs: []ast.Expr{valLhs, pv}, Tok: token.DEFINE, Rhs: []ast.Expr{&ast.IndexExpr{X: mv, Index: kv}}})
	pre = append(pre, &ast.IfStmt{Cond: &ast.UnaryExpr{Op: token.NOT, X: pv}, Body: &ast.BlockStmt{List: []ast.Stmt{&ast.BranchStmt{Tok: token.CONTINUE}}}})
	if !keyIsBlank {
		pre = append(pre, &ast.AssignStmt{Lhs: []ast.Expr{rs.Key}, Tok: token.DEFINE, Rhs: []ast.Expr{kv}})
		pre = append(pre, &ast.AssignStmt{Lhs: []ast.Expr{ast.NewIdent("_")}, Tok: token.ASSIGN, Rhs: []ast.Expr{rs.Key}})
	}
	body := &ast.BlockStmt{List: append(pre, rs.Body.List...)}
	loop := &ast.RangeStmt{Key: ast.NewIdent("_"), Value: kv, Tok: token.DEFINE, X: hookCall("SortedKeys", mv), Body: body}
	return &ast.BlockStmt{List: []ast.Stmt{
		&ast.AssignStmt{Lhs: []ast.Expr{mv}, Tok: token.DEFINE, Rhs: []ast.Expr{rs.X}},
		loop,
	}}
}

func (r *rewriter) goStmt(g *ast.GoStmt) ast.Stmt {
	r.tmpN++
	tok := ast.NewIdent(fmt.Sprintf("__vt%d", r.tmpN))
	blk := &ast.BlockStmt{}
	blk.List = append(blk.List, &ast.AssignStmt{Lhs: []ast.Expr{tok}, Tok: token.DEFINE, Rhs: []ast.Expr{hookCall("Spawn", newSite(r.fset, r.rel, g.Pos(), r.fn, "go"))}})
	adopt := &ast.ExprStmt{X: hookCall("Adopt", tok)}
	end := &ast.DeferStmt{Call: hookCall("TaskEnd")}
	call := g.Call
	if fl, ok := call.Fun.(*ast.FuncLit); ok && len(call.Args) == 0 {
		r.expr(fl)
		fl.Body.List = append([]ast.Stmt{adopt, end}, fl.Body.List...)
		blk.List = append(blk.List, g)
		return blk
	}
	// bind function value and arguments now, call them in the new goroutine
	r.expr(call)
	var args []ast.Expr
	var fun ast.Expr = call.Fun
	if _, isLit := call.Fun.(*ast.FuncLit); isLit {
		fv := ast.NewIdent(fmt.Sprintf("__vf%d", r.tmpN))
		blk.List = append(blk.List, &ast.AssignStmt{Lhs: []ast.Expr{fv}, Tok: token.DEFINE, Rhs: []ast.Expr{call.Fun}})
		fun = fv
	} else if se, ok := call.Fun.(*ast.SelectorExpr); ok {
		// method value: evaluate receiver expression now
		fv := ast.NewIdent(fmt.Sprintf("__vf%d", r.tmpN))
		blk.List = append(blk.List, &ast.AssignStmt{Lhs: []ast.Expr{fv}, Tok: token.DEFINE, Rhs: []ast.Expr{se}})
		fun = fv
	}
	for i, a := range call.Args {
		av := ast.NewIdent(fmt.Sprintf("__va%d_%d", r.tmpN, i))
		blk.List = append(blk.List, &ast.AssignStmt{Lhs: []ast.Expr{av}, Tok: token.DEFINE, Rhs: []ast.Expr{a}})
		args = append(args, av)
	}
	inner := &ast.CallExpr{Fun: fun, Args: args}
	if call.Ellipsis != token.NoPos {
		inner.Ellipsis = 1
	}
	lit := &ast.FuncLit{Type: &ast.FuncType{Params: &ast.FieldList{}}, Body: &ast.BlockStmt{List: []ast.Stmt{adopt, end, &ast.ExprStmt{X: inner}}}}
	blk.List = append(blk.List, &ast.GoStmt{Call: &ast.CallExpr{Fun: lit}})
	return blk
}

// stmt descends into nested blocks and expressions of s.
func (r *rewriter) stmt(s ast.Stmt) {
	switch v := s.(type) {
	case *ast.BlockStmt:
		v.List = r.stmts(v.List)
	case *ast.IfStmt:
		if v.Init != nil {
			r.stmt(v.Init)
		}
		r.expr(v.Cond)
		r.stmt(v.Body)
		if v.Else != nil {
			r.stmt(v.Else)
		}
	case *ast.ForStmt:
		if v.Init != nil {
			r.stmt(v.Init)
		}
		if v.Cond != nil {
			r.expr(v.Cond)
		}
		if v.Post != nil {
			r.stmt(v.Post)
		}
		r.stmt(v.Body)
	case *ast.RangeStmt:
		r.expr(v.X)
		r.stmt(v.Body)
	case *ast.SwitchStmt:
		if v.Init != nil {
			r.stmt(v.Init)
		}
		if v.Tag != nil {
			r.expr(v.Tag)
		}
		r.clauses(v.Body)
	case *ast.TypeSwitchStmt:
		if v.Init != nil {
			r.stmt(v.Init)
		}
		r.stmt(v.Assign)
		r.clauses(v.Body)
	case *ast.SelectStmt:
		r.clauses(v.Body)
	case *ast.LabeledStmt:
		r.stmt(v.Stmt)
	case *ast.ExprStmt:
		r.expr(v.X)
	case *ast.AssignStmt:
		for _, e := range v.Rhs {
			r.expr(e)
		}
		for _, e := range v.Lhs {
			r.expr(e)
		}
	case *ast.ReturnStmt:
		for _, e := range v.Results {
			r.expr(e)
		}
	case *ast.DeferStmt:
		r.expr(v.Call)
	case *ast.GoStmt:
		r.expr(v.Call)
	case *ast.DeclStmt:
		if gd, ok := v.Decl.(*ast.GenDecl); ok {
			for _, sp := range gd.Specs {
				if vs, ok := sp.(*ast.ValueSpec); ok {
					for _, e := range vs.Values {
						r.expr(e)
					}
				}
			}
		}
	case *ast.SendStmt:
		r.expr(v.Chan)
		r.expr(v.Value)
	case *ast.IncDecStmt:
		r.expr(v.X)
	}
}

func (r *rewriter) clauses(b *ast.BlockStmt) {
	for _, c := range b.List {
		switch cc := c.(type) {
		case *ast.CaseClause:
			for _, e := range cc.List {
				r.expr(e)
			}
			cc.Body = r.stmts(cc.Body)
		case *ast.CommClause:
			cc.Body = r.stmts(cc.Body)
		}
	}
}

// expr rewrites os.X / leveldb.OpenFile selectors and instruments closures.
func (r *rewriter) expr(e ast.Expr) {
	if e == nil {
		return
	}
	ast.Inspect(e, func(n ast.Node) bool {
		switch v := n.(type) {
		case *ast.FuncLit:
			saved := r.fn
			r.fn = saved + ".func"
			v.Body.List = r.stmts(v.Body.List)
			r.fn = saved
			return false
		case *ast.CallExpr:
			if se, ok := v.Fun.(*ast.SelectorExpr); ok {
				if id, ok := se.X.(*ast.Ident); ok && id.Obj == nil {
					if id.Name == "os" && osFuncs[se.Sel.Name] {
						v.Fun = &ast.SelectorExpr{X: ast.NewIdent("verifhook"), Sel: ast.NewIdent("Os" + se.Sel.Name)}
						r.usedOS = true
						r.hooked = true
					}
					if id.Name == "leveldb" && se.Sel.Name == "OpenFile" {
						v.Fun = &ast.SelectorExpr{X: ast.NewIdent("verifhook"), Sel: ast.NewIdent("OpenLevelDB")}
						r.usedDB = true
						r.hooked = true
					}
				}
			}
		}
		return true
	})
}

func funcName(fd *ast.FuncDecl) string {
	if fd.Recv != nil && len(fd.Recv.List) > 0 {
		t := fd.Recv.List[0].Type
		if st, ok := t.(*ast.StarExpr); ok {
			t = st.X
		}
		if id, ok := t.(*ast.Ident); ok {
			return id.Name + "." + fd.Name.Name
		}
	}
	return fd.Name.Name
}

type stubImporter struct{ pkgs map[string]*types.Package }

func (s *stubImporter) Import(path string) (*types.Package, error) {
	if p, ok := s.pkgs[path]; ok {
		return p, nil
	}
	name := path[strings.LastIndex(path, "/")+1:]
	if strings.HasPrefix(name, "v") && len(name) <= 3 { // .../v2
		parts := strings.Split(path, "/")
		if len(parts) >= 2 {
			name = parts[len(parts)-2]
		}
	}
	name = strings.TrimPrefix(name, "go-")
	p := types.NewPackage(path, name)
	p.MarkComplete()
	s.pkgs[path] = p
	return p, nil
}

func instrumentPackage(dir, relDir string, files []string) error {
	fset := token.NewFileSet()
	var parsed []*ast.File
	for _, f := range files {
		af, err := parser.ParseFile(fset, filepath.Join(dir, f), nil, parser.ParseComments)
		if err != nil {
			return err
		}
		parsed = append(parsed, af)
	}
	// lenient type-check: imports are stubs, errors ignored; good enough to see locally declared map types
	info := &types.Info{Types: map[ast.Expr]types.TypeAndValue{}}
	conf := types.Config{Importer: &stubImporter{pkgs: map[string]*types.Package{}}, Error: func(error) {}, DisableUnusedImportCheck: true}
	func() {
		defer func() { recover() }()
		conf.Check(relDir, fset, parsed, info)
	}()
	for i, af := range parsed {
		rel := filepath.ToSlash(filepath.Join(relDir, files[i]))
		r := &rewriter{fset: fset, rel: rel, stmtHook: stmtPkgs[filepath.ToSlash(relDir)], info: info}
		for _, d := range af.Decls {
			fd, ok := d.(*ast.FuncDecl)
			if !ok || fd.Body == nil {
				continue
			}
			if fd.Name.Name == "init" && fd.Recv == nil {
				continue
			}
			r.fn = filepath.ToSlash(relDir) + ":" + funcName(fd)
			fd.Body.List = r.stmts(fd.Body.List)
		}
		if !r.hooked {
			continue
		}
		imp := &ast.ImportSpec{Path: &ast.BasicLit{Kind: token.STRING, Value: strconv.Quote(modPath + "/verifhook")}}
		gd := &ast.GenDecl{Tok: token.IMPORT, Specs: []ast.Spec{imp}}
		af.Decls = append([]ast.Decl{gd}, af.Decls...)
		var buf bytes.Buffer
		af.Comments = nil // positions no longer line up after insertion
		if err := format.Node(&buf, fset, af); err != nil {
			return fmt.Errorf("%s: %v", rel, err)
		}
		src := buf.String()
		for _, im := range af.Imports {
			p, _ := strconv.Unquote(im.Path.Value)
			if p == "os" && r.usedOS {
				src += "\nvar _ = os.ErrNotExist\n"
			}
			if strings.HasSuffix(p, "goleveldb/leveldb") && r.usedDB {
				src += "\nvar _ = leveldb.ErrNotFound\n"
			}
		}
		if err := os.WriteFile(filepath.Join(dir, files[i]), []byte(src), 0644); err != nil {
			return err
		}
	}
	return nil
}

func main() {
	if len(os.Args) != 3 {
		fmt.Fprintln(os.Stderr, "usage: instrument <src module dir> <dst dir>")
		os.Exit(2)
	}
	src, dst := os.Args[1], os.Args[2]
	gm, err := os.ReadFile(filepath.Join(src, "go.mod"))
	if err != nil {
		fmt.Fprintln(os.Stderr, err)
		os.Exit(2)
	}
	for _, l := range strings.Split(string(gm), "\n") {
		if strings.HasPrefix(l, "module ") {
			modPath = strings.TrimSpace(strings.TrimPrefix(l, "module "))
		}
	}
	err = filepath.WalkDir(src, func(p string, d fs.DirEntry, err error) error {
		if err != nil {
			return err
		}
		rel, _ := filepath.Rel(src, p)
		if d.IsDir() {
			if d.Name() == ".git" {
				return filepath.SkipDir
			}
			return os.MkdirAll(filepath.Join(dst, rel), 0755)
		}
		if !d.Type().IsRegular() {
			return nil
		}
		b, err := os.ReadFile(p)
		if err != nil {
			return err
		}
		return os.WriteFile(filepath.Join(dst, rel), b, 0644)
	})
	if err != nil {
		fmt.Fprintln(os.Stderr, err)
		os.Exit(2)
	}
	pkgs := map[string][]string{}
	filepath.WalkDir(dst, func(p string, d fs.DirEntry, err error) error {
		if err != nil || d.IsDir() || !strings.HasSuffix(p, ".go") || strings.HasSuffix(p, "_test.go") {
			return nil
		}
		rel, _ := filepath.Rel(dst, p)
		dir := filepath.Dir(rel)
		if strings.HasPrefix(filepath.ToSlash(dir), "verifhook") || strings.Contains(filepath.ToSlash(rel), "/testdata/") {
			return nil
		}
		pkgs[dir] = append(pkgs[dir], filepath.Base(rel))
		return nil
	})
	var dirs []string
	for d := range pkgs {
		dirs = append(dirs, d)
	}
	sort.Strings(dirs)
	nfiles := 0
	for _, d := range dirs {
		sort.Strings(pkgs[d])
		nfiles += len(pkgs[d])
		if err := instrumentPackage(filepath.Join(dst, d), d, pkgs[d]); err != nil {
			fmt.Fprintln(os.Stderr, "instrument", d, err)
			os.Exit(2)
		}
	}
	hd := filepath.Join(dst, "verifhook")
	os.MkdirAll(hd, 0755)
	var sb strings.Builder
	sb.WriteString("package verifhook\n\ntype Site struct {\n\tFile string\n\tLine int\n\tFunc, Kind string\n}\n\nvar Sites = []Site{\n")
	for _, s := range sites {
		fmt.Fprintf(&sb, "\t{%q, %d, %q, %q},\n", s.File, s.Line, s.Func, s.Kind)
	}
	sb.WriteString("}\n")
	os.WriteFile(filepath.Join(hd, "sites_gen.go"), []byte(sb.String()), 0644)
	os.WriteFile(filepath.Join(hd, "hook.go"), []byte(hookTemplate), 0644)
	fmt.Printf("instrumented %d files in %d packages, %d sites\n", nfiles, len(dirs), len(sites))
}
