package main

import (
	"sort"
	"time"
)

type Evidence struct {
	PropertyID  string         `json:"property_id"`
	Tier        string         `json:"tier"`
	Seed        uint64         `json:"seed"`
	Level       string         `json:"level"`
	Coverage    map[string]any `json:"coverage"`
	Assumptions []string       `json:"assumptions"`
	WallS       float64        `json:"wall_s"`
	Violations  int            `json:"violations"`
}

func buildEvidence(prop, tier string, seed uint64, plan Plan, results []runOut, launched, skipped int, wall time.Duration, unlisted int, knownLines []string, harnessErrs int) *Evidence {
	distinct := map[string]bool{}
	distinctNT := map[string]bool{}
	scheds := map[string]bool{}
	scens := map[string]bool{}
	faults := map[string]int{}
	probes := map[string]int{}
	cfgs := map[string]int{}
	var simNS int64
	steps, switches, checks, inconclusive, died := 0, 0, 0, 0, 0
	var samples []any
	var runWall time.Duration
	for i := range results {
		r := results[i].res
		runWall += results[i].wall
		if r.ScenFP == "" {
			died++
			continue
		}
		k := r.ScenFP + "/" + r.SchedFP
		distinct[k] = true
		if r.NonTrivial {
			distinctNT[k] = true
		}
		scheds[r.SchedFP] = true
		scens[r.ScenFP] = true
		for f, n := range r.Faults {
			faults[f] += n
		}
		for f, n := range r.Probes {
			probes[f] += n
		}
		cfgs[r.Config]++
		simNS += r.SimNS
		steps += r.Steps
		switches += r.Switches
		checks += r.Checks
		if r.Inconclusive != "" {
			inconclusive++
		}
	}
	// samples: a few runs written out (first, middle, last by index that carry a sample)
	var withSample []*Result
	for i := range results {
		if results[i].res.Sample != nil || len(results[i].res.Scenario) > 0 {
			withSample = append(withSample, results[i].res)
		}
	}
	pick := []int{0, len(withSample) / 2, len(withSample) - 1}
	seenIdx := map[int]bool{}
	for _, p := range pick {
		if p < 0 || p >= len(withSample) || seenIdx[p] {
			continue
		}
		seenIdx[p] = true
		r := withSample[p]
		samples = append(samples, map[string]any{"idx": r.Idx, "config": r.Config, "scenario": r.Scenario, "sample": r.Sample, "steps": r.Steps, "sim_s": float64(r.SimNS) / 1e9, "faults": r.Faults, "sched_fp": r.SchedFP, "violations": len(r.Violations)})
	}
	if len(samples) == 0 {
		samples = append(samples, map[string]any{"note": "no run produced a sample"})
	}
	ws := wall.Seconds()
	if ws <= 0 {
		ws = 0.001
	}
	cov := map[string]any{
		"evaluations":         launched,
		"distinct_nontrivial": len(distinctNT),
		"rule":                plan.Rule,
		"samples":             samples,
		"exhaustive":          plan.Exhaustive && skipped == 0 && plan.Enumerated > 0,
		"enumerated_cases":    plan.Enumerated,
		"planned_runs":        plan.Runs,
		"skipped_by_budget":   skipped,
		"slow_runs_retried": func() (n int) {
			for i := range results {
				if results[i].retried {
					n++
				}
			}
			return
		}(),
		"distinct_runs":       len(distinct),
		"distinct_schedules":  len(scheds),
		"distinct_scenarios":  len(scens),
		"oracle_evaluations":  checks,
		"scheduler_steps":     steps,
		"task_switches":       switches,
		"simulated_time_s":    float64(simNS) / 1e9,
		"runs_per_hour":       float64(launched) / ws * 3600,
		"seeds_per_hour":      float64(launched) / ws * 3600,
		"faults_fired":        sortedMap(faults),
		"rare_branch_probes":  sortedMap(probes),
		"configurations":      cfgs,
		"inconclusive_runs":   inconclusive,
		"runs_that_died":      died,
		"harness_errors":      harnessErrs,
		"known_findings_seen": knownLines,
		"race_build":          plan.Race || plan.RaceEvery > 0 || plan.RaceFrom > 0,
		"race_build_from":     plan.RaceFrom,
		"race_build_every":    plan.RaceEvery,
		"real_components":     []string{"all of the repository (instrumented scratch copy of the working tree)", "goleveldb", "cache2go", "x/crypto/ocsp", "net/http client above RoundTripper", "encoding/asn1", "zap"},
		"stubbed_components":  []string{"network below http.RoundTripper (simulated origins/responders)", "wall clock and timers (testing/synctest fake clock)", "goroutine scheduling choice (own scheduler)", "file system below goleveldb storage.Storage and os.* (real files on tmpfs behind a fault-injecting wrapper)", "Caddy itself (validator built from JSON, zero caddy.Context)"},
	}
	return &Evidence{
		PropertyID: prop, Tier: tier, Seed: seed, Level: plan.Level, Coverage: cov, WallS: wall.Seconds(), Violations: unlisted,
		Assumptions: []string{
			"sampling, not proof: a clean batch is evidence for the explored runs only",
			"goleveldb/cache2go internal goroutines are real and brought to quiescence before every scheduling decision; interleavings inside those libraries are not explored",
			"process death is modelled (completed syscalls survive); power loss is not",
			"the instrumented copy is behaviour-preserving (it passes the repository's own test suite in setup)",
		},
	}
}

func sortedMap(m map[string]int) map[string]int {
	// encoding/json sorts map keys; copy to drop zero entries
	out := map[string]int{}
	ks := make([]string, 0, len(m))
	for k := range m {
		ks = append(ks, k)
	}
	sort.Strings(ks)
	for _, k := range ks {
		if m[k] != 0 {
			out[k] = m[k]
		}
	}
	return out
}
