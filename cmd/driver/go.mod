module verif/driver

go 1.22
