// driver fans simulated runs out over the cores (one OS process per run), collects their results,
// minimises and replays failures, matches them against known_findings.json and writes the
// evidence file. Standard library only.
//
// exit 0: property held on everything explored (known findings are printed as KNOWN-FINDING lines)
// exit 1: at least one violation not listed in known_findings.json (VIOLATION line printed)
// exit 2: harness trouble (build, replay divergence, watchdog without a culprit) — never a VIOLATION
package main

import (
	"bytes"
	"context"
	"encoding/json"
	"flag"
	"fmt"
	"os"
	"os/exec"
	"path/filepath"
	"regexp"
	"runtime"
	"sort"
	"strings"
	"sync"
	"syscall"
	"time"
)

type Violation struct {
	Oracle    string `json:"oracle"`
	Signature string `json:"signature"`
	Detail    string `json:"detail"`
	Step      int    `json:"step"`
	SimT      string `json:"sim_t"`
}

type preemptPoint struct {
	Key string `json:"k"`
	N   int    `json:"n"`
}

type Result struct {
	Prop         string         `json:"prop"`
	Tier         string         `json:"tier"`
	Idx          int            `json:"idx"`
	Seed         uint64         `json:"seed"`
	Config       string         `json:"config"`
	Scenario     map[string]any `json:"scenario"`
	ScenFP       string         `json:"scen_fp"`
	SchedFP      string         `json:"sched_fp"`
	Steps        int            `json:"steps"`
	Switches     int            `json:"switches"`
	SimNS        int64          `json:"sim_ns"`
	Faults       map[string]int `json:"faults"`
	Probes       map[string]int `json:"probes"`
	Checks       int            `json:"checks"`
	NonTrivial   bool           `json:"nontrivial"`
	Violations   []Violation    `json:"violations"`
	Inconclusive string         `json:"inconclusive,omitempty"`
	TraceHash    string         `json:"trace_hash"`
	Tape         []uint32       `json:"tape,omitempty"`
	Preempt      []preemptPoint `json:"preempt,omitempty"`
	TraceTail    []string       `json:"trace_tail,omitempty"`
	Sample       any            `json:"sample,omitempty"`
	WallMS       int64          `json:"wall_ms"`
}

type Plan struct {
	Runs       int    `json:"runs"`
	Enumerated int    `json:"enumerated"`
	Exhaustive bool   `json:"exhaustive"`
	Rule       string `json:"rule"`
	Level      string `json:"level"`
	Race       bool   `json:"race"`
	RaceEvery  int    `json:"race_every"` // > 0: every RaceEvery-th run uses the -race build
	RaceFrom   int    `json:"race_from"`  // > 0: runs with RaceFrom <= idx < RaceTo use the -race build
	RaceTo     int    `json:"race_to"`
}

type ReplayFile struct {
	Property  string         `json:"property"`
	Tier      string         `json:"tier"`
	Idx       int            `json:"idx"`
	Seed      uint64         `json:"seed"`
	Tape      []uint32       `json:"tape,omitempty"`
	UseTape   bool           `json:"use_tape"`
	Preempt   []preemptPoint `json:"preempt,omitempty"`
	UsePre    bool           `json:"use_preempt"`
	Violation *Violation     `json:"violation,omitempty"`
	TraceHash string         `json:"trace_hash,omitempty"`
	TraceTail []string       `json:"trace_tail,omitempty"`
	Scenario  map[string]any `json:"scenario,omitempty"`
	MinFrom   map[string]int `json:"minimised_from,omitempty"`
	Race      bool           `json:"race,omitempty"`
}

type Finding struct {
	ID          string `json:"id"`
	Property    string `json:"property"`
	Status      string `json:"status"` // open | fixed
	Oracle      string `json:"oracle"`
	Signature   string `json:"signature,omitempty"`
	SignatureRE string `json:"signature_re,omitempty"`
	What        string `json:"what"`
	Commit      string `json:"commit,omitempty"`
}

type KnownFile struct {
	Findings []Finding `json:"findings"`
}

func (f *Finding) matches(v Violation) bool {
	if f.Status != "open" || f.Oracle != v.Oracle {
		return false
	}
	if f.SignatureRE != "" {
		ok, _ := regexp.MatchString("^(?:"+f.SignatureRE+")$", v.Signature)
		return ok
	}
	return f.Signature == v.Signature
}

type runOut struct {
	res     *Result
	crash   string // non-empty: process died; text of the crash
	crashSg string
	timeout bool
	retried bool   // the run exceeded the short watchdog and was executed again under the long one
	harness string // harness error text
	wall    time.Duration
}

var (
	bin, raceBin string
	maxRunWall   = 90 * time.Second
)

// runSim executes one simulated run in its own OS process. A run that exceeds the wall-clock watchdog is executed
// once more with ten times the limit before anything is concluded from it: runs are deterministic, so a run that was
// merely slow (a very large list, a loaded machine) completes the second time and its result is used; only a run
// that exceeds the long limit as well is reported (non-termination if a goroutine is spinning in repository code,
// harness error otherwise).
func runSim(ctx context.Context, race bool, args ...string) runOut {
	ro := runSimLimit(ctx, race, maxRunWall, args...)
	if ro.timeout && ctx.Err() == nil {
		slow := runSimLimit(ctx, race, 10*maxRunWall, args...)
		slow.retried = true
		return slow
	}
	return ro
}

func runSimLimit(ctx context.Context, race bool, limit time.Duration, args ...string) runOut {
	b := bin
	if race && raceBin != "" {
		b = raceBin
	}
	cctx, cancel := context.WithTimeout(ctx, limit)
	defer cancel()
	cmd := exec.CommandContext(cctx, b, append([]string{"-test.run", "^TestSim$", "-test.timeout", "0"}, args...)...)
	cmd.Cancel = func() error { return cmd.Process.Signal(syscall.SIGQUIT) }
	cmd.WaitDelay = 5 * time.Second
	var out, errb bytes.Buffer
	cmd.Stdout, cmd.Stderr = &out, &errb
	cmd.Env = append(os.Environ(), "GOTRACEBACK=all", "GORACE=halt_on_error=0 exitcode=0")
	start := time.Now()
	err := cmd.Run()
	ro := runOut{wall: time.Since(start)}
	for _, l := range strings.Split(out.String(), "\n") {
		if strings.HasPrefix(l, "RESULT ") {
			r := &Result{}
			if e := json.Unmarshal([]byte(l[7:]), r); e == nil {
				ro.res = r
			}
		}
		if strings.HasPrefix(l, "HARNESS-ERROR") {
			ro.harness = l
		}
	}
	all := out.String() + "\n" + errb.String()
	if race {
		if rr := raceReports(all); len(rr) > 0 && ro.res != nil {
			for _, r := range rr {
				ro.res.Violations = append(ro.res.Violations, r)
			}
		}
	}
	if cctx.Err() == context.DeadlineExceeded {
		ro.timeout = true
		ro.crash = tail(all, 6000)
		ro.crashSg = spinningRepoFrame(all)
		return ro
	}
	if ro.res == nil && ro.harness == "" {
		if err != nil || strings.Contains(all, "panic:") || strings.Contains(all, "fatal error:") {
			ro.crash = tail(all, 8000)
			ro.crashSg = crashSignature(all)
		} else {
			ro.harness = "no RESULT line: " + tail(all, 400)
		}
	}
	return ro
}

func tail(s string, n int) string {
	if len(s) > n {
		return s[len(s)-n:]
	}
	return s
}

const modPrefix = "github.com/gr33nbl00d/caddy-revocation-validator"

var frameRE = regexp.MustCompile(`(?m)^` + regexp.QuoteMeta(modPrefix) + `[/.]([^\s(]+(?:\([^)]*\))?[^\s(]*)\(`)

// crashSignature: the first repository frame (not verifhook) after "panic:" / "fatal error:".
func crashSignature(out string) string {
	i := strings.Index(out, "panic:")
	if j := strings.Index(out, "fatal error:"); j >= 0 && (i < 0 || j < i) {
		i = j
	}
	if i < 0 {
		return ""
	}
	kind := "panic"
	seg := out[i:]
	first := strings.SplitN(seg, "\n", 2)[0]
	if strings.Contains(first, "harness:") {
		return "" // the harness's own assertion: never attributed to the repository
	}
	// only the goroutine that died counts: the dump of all other goroutines follows after the next blank line +
	// "goroutine N [...]" header and always contains repository frames of bystanders
	if g := strings.Index(seg, "\ngoroutine "); g >= 0 {
		rest := seg[g+1:]
		if e := strings.Index(rest, "\n\ngoroutine "); e >= 0 {
			seg = seg[:g+1+e]
		}
	}
	switch {
	case strings.Contains(first, "nil pointer"):
		kind = "nil-deref"
	case strings.Contains(first, "makeslice") || strings.Contains(first, "out of memory") || strings.Contains(first, "cannot allocate"):
		kind = "alloc"
	case strings.Contains(first, "index out of range") || strings.Contains(first, "slice bounds"):
		kind = "bounds"
	case strings.Contains(first, "all goroutines are asleep"):
		kind = "asleep"
	}
	for _, m := range frameRE.FindAllStringSubmatch(seg, -1) {
		if strings.HasPrefix(m[1], "verifhook") {
			continue
		}
		return kind + ":" + m[1]
	}
	return ""
}

// spinningRepoFrame finds, in a SIGQUIT goroutine dump, a goroutine that is running/runnable inside
// repository code (a loop that never yields). Empty when there is none.
func spinningRepoFrame(out string) string {
	for _, g := range strings.Split(out, "\n\ngoroutine ") {
		head := strings.SplitN(g, "\n", 2)[0]
		if !strings.Contains(head, "[running]") && !strings.Contains(head, "[runnable]") {
			continue
		}
		for _, m := range frameRE.FindAllStringSubmatch(g, -1) {
			if strings.HasPrefix(m[1], "verifhook") {
				continue
			}
			return "spin:" + m[1]
		}
	}
	return ""
}

var raceOracle = "C13.race"

var raceBlockRE = regexp.MustCompile(`(?s)WARNING: DATA RACE\n(.*?)\n==================`)

// raceReports extracts data-race reports whose both stacks contain a frame of the repository
// (rule R3: anything else is a harness artefact by construction).
func raceReports(out string) []Violation {
	var vs []Violation
	seen := map[string]bool{}
	for _, m := range raceBlockRE.FindAllStringSubmatch(out, -1) {
		blk := m[1]
		parts := regexp.MustCompile(`(?m)^(?:Previous )?(?:[Rr]ead|[Ww]rite|atomic [a-z]+) (?:at|of) .*$`).Split(blk, -1)
		if len(parts) < 3 {
			continue
		}
		fr := func(s string) string {
			// stop at the "Goroutine ... created at" section
			if i := strings.Index(s, "\nGoroutine "); i >= 0 {
				s = s[:i]
			}
			top := true
			for _, l := range strings.Split(s, "\n") {
				l = strings.TrimSpace(l)
				if l == "" || strings.HasPrefix(l, "/") || !strings.Contains(l, "(") {
					continue // file:line rows
				}
				if top {
					// the access itself: skip runtime helpers; if it is harness code the report is an artefact
					if strings.HasPrefix(l, "internal/godebug.") {
						// the standard library's own lazily initialised setting cache (first timer of the process): data
						// the repository neither owns nor passes in
						return ""
					}
					if strings.HasPrefix(l, "runtime.") || strings.HasPrefix(l, "sync.") || strings.HasPrefix(l, "sync/atomic.") || strings.HasPrefix(l, "internal/") {
						continue
					}
					if strings.HasPrefix(l, "verifsim.") || strings.Contains(l, "/verifhook.") {
						return ""
					}
					top = false
				}
				if strings.HasPrefix(l, "verifsim.") {
					// the access happened in code the harness runs below the repository's call (a simulated response body
					// being read, a document being built): the data is the harness's
					return ""
				}
				if strings.HasPrefix(l, modPrefix) && !strings.Contains(l, "/verifhook.") {
					l = strings.TrimPrefix(l, modPrefix)
					if i := strings.LastIndex(l, "("); i > 0 {
						l = l[:i]
					}
					return strings.TrimLeft(l, "/.")
				}
			}
			return ""
		}
		a, b := fr(parts[1]), fr(parts[2])
		if a == "" || b == "" {
			continue
		}
		if b < a {
			a, b = b, a
		}
		sig := a + "|" + b
		if seen[sig] {
			continue
		}
		seen[sig] = true
		vs = append(vs, Violation{Oracle: raceOracle, Signature: sig, Detail: "data race between " + a + " and " + b + "\n" + tail(blk, 3000)})
	}
	return vs
}

func hasViolation(r *Result, oracle, sig string) bool {
	if r == nil {
		return false
	}
	for _, v := range r.Violations {
		if v.Oracle == oracle && v.Signature == sig {
			return true
		}
	}
	return false
}

func main() {
	prop := flag.String("prop", "", "property id")
	tier := flag.String("tier", "quick", "quick|thorough")
	flag.StringVar(&bin, "bin", "", "simulator test binary")
	flag.StringVar(&raceBin, "racebin", "", "simulator test binary built with -race")
	seed := flag.Uint64("seed", 1, "VERIF_SEED")
	verif := flag.String("verif", "/verif", "verif directory")
	budget := flag.Duration("budget", 0, "wall-clock budget for the non-enumerated part (0: tier default)")
	replay := flag.String("replay", "", "replay one file and report")
	jobs := flag.Int("jobs", 0, "parallel runs (default: number of CPUs)")
	maxRuns := flag.Int("maxruns", 0, "cap on the number of runs (0: plan)")
	flag.Parse()
	if *jobs == 0 {
		*jobs = runtime.NumCPU()
	}
	ctx := context.Background()
	startAll := time.Now()

	if *replay != "" {
		os.Exit(doReplay(ctx, *replay))
	}

	// plan
	pout, err := exec.Command(bin, "-test.run", "^TestSim$", "-prop", *prop, "-tier", *tier, "-plan").CombinedOutput()
	var plan Plan
	ok := false
	for _, l := range strings.Split(string(pout), "\n") {
		if strings.HasPrefix(l, "PLAN ") {
			if json.Unmarshal([]byte(l[5:]), &plan) == nil {
				ok = true
			}
		}
	}
	if err != nil || !ok {
		fmt.Printf("HARNESS-ERROR cannot obtain plan for %s: %v %s\n", *prop, err, tail(string(pout), 500))
		os.Exit(2)
	}
	if *maxRuns > 0 && plan.Runs > *maxRuns {
		plan.Runs = *maxRuns
	}
	if *budget == 0 {
		*budget = 45 * time.Second
		if *tier == "thorough" {
			*budget = 12 * time.Minute
		}
	}
	useRace := func(idx int) bool {
		return plan.Race || plan.RaceEvery > 0 && idx%plan.RaceEvery == plan.RaceEvery-1 || plan.RaceFrom > 0 && idx >= plan.RaceFrom && idx < plan.RaceTo
	}
	if *prop != "" && *prop != "C13" {
		raceOracle = *prop + ".race"
	}
	if (plan.Race || plan.RaceEvery > 0 || plan.RaceFrom > 0) && raceBin == "" {
		fmt.Println("HARNESS-ERROR plan wants the race build but no -racebin given")
		os.Exit(2)
	}

	type job struct{ idx int }
	jobsCh := make(chan job)
	var mu sync.Mutex
	var results []runOut
	var wg sync.WaitGroup
	deadline := startAll.Add(*budget)
	for w := 0; w < *jobs; w++ {
		wg.Add(1)
		go func() {
			defer wg.Done()
			for j := range jobsCh {
				ro := runSim(ctx, useRace(j.idx), "-prop", *prop, "-tier", *tier, "-idx", fmt.Sprint(j.idx), "-seed", fmt.Sprint(*seed))
				if ro.res == nil {
					ro.res = &Result{Prop: *prop, Tier: *tier, Idx: j.idx, Seed: *seed}
					if ro.crash != "" || ro.timeout {
						ro.res.Scenario = map[string]any{"died": true}
					}
				}
				mu.Lock()
				results = append(results, ro)
				mu.Unlock()
			}
		}()
	}
	launched, skipped := 0, 0
	for i := 0; i < plan.Runs; i++ {
		if i >= plan.Enumerated && time.Now().After(deadline) {
			skipped = plan.Runs - i
			break
		}
		jobsCh <- job{i}
		launched++
	}
	close(jobsCh)
	wg.Wait()
	sort.Slice(results, func(i, j int) bool { return results[i].res.Idx < results[j].res.Idx })

	// ------------------------------------------------------------------ classify
	known := loadKnown(filepath.Join(*verif, "known_findings.json"))
	type group struct {
		v    Violation
		runs []*Result
		race bool
	}
	groups := map[string]*group{}
	var order []string
	harnessErrs := 0
	var harnessMsgs []string
	add := func(v Violation, r *Result) {
		k := v.Oracle + "\x00" + v.Signature
		g := groups[k]
		if g == nil {
			g = &group{v: v, race: useRace(r.Idx)}
			groups[k] = g
			order = append(order, k)
		}
		g.runs = append(g.runs, r)
	}
	for i := range results {
		ro := &results[i]
		switch {
		case ro.harness != "":
			harnessErrs++
			harnessMsgs = append(harnessMsgs, fmt.Sprintf("idx %d: %s", ro.res.Idx, ro.harness))
		case ro.timeout:
			if ro.crashSg != "" {
				v := Violation{Oracle: "engine.non-termination", Signature: ro.crashSg, Detail: "run exceeded the wall-clock watchdog with a goroutine running in repository code\n" + tail(ro.crash, 3000)}
				ro.res.Violations = append(ro.res.Violations, v)
				add(v, ro.res)
			} else {
				harnessErrs++
				harnessMsgs = append(harnessMsgs, fmt.Sprintf("idx %d: watchdog (%v, after a first attempt under %v) without a repository goroutine running: %s", ro.res.Idx, 10*maxRunWall, maxRunWall, tail(ro.crash, 1500)))
			}
		case ro.crash != "":
			if ro.crashSg != "" {
				v := Violation{Oracle: "engine.process-crash", Signature: ro.crashSg, Detail: "the simulated process died\n" + tail(ro.crash, 3000)}
				ro.res.Violations = append(ro.res.Violations, v)
				add(v, ro.res)
			} else {
				harnessErrs++
				harnessMsgs = append(harnessMsgs, fmt.Sprintf("idx %d: process died without a repository frame: %s", ro.res.Idx, tail(ro.crash, 1500)))
			}
		default:
			for _, v := range ro.res.Violations {
				add(v, ro.res)
			}
		}
	}

	exit := 0
	unlisted := 0
	os.MkdirAll(filepath.Join(*verif, "replays"), 0755)
	var knownLines []string
	knownSeen := map[string]int{}
	for _, k := range order {
		g := groups[k]
		if f := known.match(g.v); f != nil {
			knownSeen[f.ID] += len(g.runs)
			continue
		}
		unlisted++
		// pick the representative with the shortest tape
		sort.Slice(g.runs, func(i, j int) bool {
			if len(g.runs[i].Tape) != len(g.runs[j].Tape) {
				return len(g.runs[i].Tape) < len(g.runs[j].Tape)
			}
			return g.runs[i].Idx < g.runs[j].Idx
		})
		rep := g.runs[0]
		rf, rerr := minimise(ctx, rep, g.v, useRace(rep.Idx), unlisted <= 2)
		name := fmt.Sprintf("%s-%s-%d-%d.json", *prop, sanitize(g.v.Oracle+"-"+g.v.Signature), *seed, rep.Idx)
		path := filepath.Join(*verif, "replays", name)
		b, _ := json.MarshalIndent(rf, "", " ")
		os.WriteFile(path, b, 0644)
		if rerr != nil {
			// the failure does not reproduce from its own seed: harness trouble, not a violation
			fmt.Printf("HARNESS-ERROR replay diverged for %s [%s] (run idx %d): %v\n", g.v.Oracle, g.v.Signature, rep.Idx, rerr)
			harnessErrs++
			continue
		}
		exit = 1
		fmt.Printf("VIOLATION property=%s replay=%s\n", *prop, path)
		fmt.Printf("  oracle=%s signature=%s runs=%d\n  %s\n", g.v.Oracle, g.v.Signature, len(g.runs), firstLines(g.v.Detail, 12))
	}
	for _, f := range known.Findings {
		if n := knownSeen[f.ID]; n > 0 {
			line := fmt.Sprintf("KNOWN-FINDING: property=%s %s — %s (oracle %s, signature %s; seen in %d runs)", f.Property, f.ID, f.What, f.Oracle, f.Signature+f.SignatureRE, n)
			knownLines = append(knownLines, line)
			fmt.Println(line)
		}
	}

	// ------------------------------------------------------------------ evidence
	ev := buildEvidence(*prop, *tier, *seed, plan, results, launched, skipped, time.Since(startAll), unlisted, knownLines, harnessErrs)
	os.MkdirAll(filepath.Join(*verif, "evidence"), 0755)
	eb, _ := json.MarshalIndent(ev, "", " ")
	if err := os.WriteFile(filepath.Join(*verif, "evidence", *prop+".json"), eb, 0644); err != nil {
		fmt.Println("HARNESS-ERROR cannot write evidence:", err)
		os.Exit(2)
	}
	fmt.Printf("%s %s: runs=%d (planned %d, skipped %d by budget) violations(unlisted groups)=%d known=%d harness-errors=%d wall=%.1fs\n",
		*prop, *tier, launched, plan.Runs, skipped, unlisted, len(knownLines), harnessErrs, time.Since(startAll).Seconds())
	if harnessErrs > 0 {
		for i, m := range harnessMsgs {
			if i < 5 {
				fmt.Println("HARNESS-ERROR", m)
			}
		}
		if exit == 0 {
			exit = 2
		}
	}
	os.Exit(exit)
}

func firstLines(s string, n int) string {
	ls := strings.Split(s, "\n")
	if len(ls) > n {
		ls = ls[:n]
	}
	return strings.Join(ls, "\n  ")
}

func sanitize(s string) string {
	var b strings.Builder
	for _, c := range s {
		if c >= 'a' && c <= 'z' || c >= 'A' && c <= 'Z' || c >= '0' && c <= '9' || c == '-' || c == '.' {
			b.WriteRune(c)
		} else {
			b.WriteByte('_')
		}
	}
	out := b.String()
	if len(out) > 80 {
		out = out[:80]
	}
	return out
}

func loadKnown(path string) *KnownFile {
	k := &KnownFile{}
	b, err := os.ReadFile(path)
	if err != nil {
		return k
	}
	if err := json.Unmarshal(b, k); err != nil {
		fmt.Println("HARNESS-ERROR known_findings.json does not parse:", err)
		os.Exit(2)
	}
	return k
}

func (k *KnownFile) match(v Violation) *Finding {
	for i := range k.Findings {
		if k.Findings[i].matches(v) {
			return &k.Findings[i]
		}
	}
	return nil
}

// ------------------------------------------------------------------------------ minimisation

func writeTmp(rf *ReplayFile) string {
	f, _ := os.CreateTemp("", "verif-replay-*.json")
	b, _ := json.Marshal(rf)
	f.Write(b)
	f.Close()
	return f.Name()
}

func tryReplay(ctx context.Context, rf *ReplayFile, v Violation, race bool) (bool, *Result) {
	p := writeTmp(rf)
	defer os.Remove(p)
	ro := runSim(ctx, race, "-replay", p, "-full")
	if ro.res == nil {
		if ro.crashSg != "" && (v.Oracle == "engine.process-crash" || v.Oracle == "engine.non-termination") && ro.crashSg == v.Signature {
			return true, &Result{}
		}
		return false, nil
	}
	return hasViolation(ro.res, v.Oracle, v.Signature), ro.res
}

func minimise(ctx context.Context, rep *Result, v Violation, race bool, shrink bool) (*ReplayFile, error) {
	vv := v
	base := &ReplayFile{Property: rep.Prop, Tier: rep.Tier, Idx: rep.Idx, Seed: rep.Seed, Violation: &vv, Scenario: rep.Scenario, TraceTail: rep.TraceTail, TraceHash: rep.TraceHash, Race: race}
	// 1. the plain seed replay must reproduce (twice, same trace hash)
	ok1, r1 := tryReplay(ctx, base, v, race)
	ok2, r2 := tryReplay(ctx, base, v, race)
	if !ok1 || !ok2 {
		return base, fmt.Errorf("seed replay did not reproduce the violation (first=%v second=%v)", ok1, ok2)
	}
	if r1 != nil && r2 != nil && r1.TraceHash != r2.TraceHash {
		// the violation reproduces, but the traces are not bit-identical (background activity of a
		// library after the fault); report it, unminimised, and say so
		base.TraceHash = ""
		base.MinFrom = map[string]int{"trace_not_bit_identical": 1}
		return base, nil
	}
	if !shrink {
		return base, nil
	}
	if v.Oracle == "engine.process-crash" || v.Oracle == "engine.non-termination" || len(rep.Tape) == 0 && r1 != nil && len(r1.Tape) == 0 {
		return base, nil
	}
	src := rep
	if len(src.Tape) == 0 && r1 != nil {
		src = r1
	}
	cur := &ReplayFile{Property: rep.Prop, Tier: rep.Tier, Idx: rep.Idx, Seed: rep.Seed, UseTape: true, UsePre: true,
		Tape: append([]uint32(nil), src.Tape...), Preempt: append([]preemptPoint(nil), src.Preempt...), Violation: &vv, Race: race}
	okT, _ := tryReplay(ctx, cur, v, race)
	if !okT {
		// explicit tape does not reproduce (should not happen); keep the seed replay
		return base, nil
	}
	origTape, origPre := len(cur.Tape), len(cur.Preempt)
	budget := 90
	deadline := time.Now().Add(40 * time.Second)
	if rep.Tier == "thorough" {
		budget, deadline = 400, time.Now().Add(180*time.Second)
	}
	try := func(c *ReplayFile) bool {
		if budget <= 0 || time.Now().After(deadline) {
			return false
		}
		budget--
		ok, _ := tryReplay(ctx, c, v, race)
		return ok
	}
	// 2. truncate the tape (binary search on the prefix length)
	lo, hi := 0, len(cur.Tape)
	for lo < hi {
		mid := (lo + hi) / 2
		c := *cur
		c.Tape = cur.Tape[:mid]
		if try(&c) {
			hi = mid
		} else {
			lo = mid + 1
		}
	}
	if hi < len(cur.Tape) {
		c := *cur
		c.Tape = cur.Tape[:hi]
		if try(&c) {
			cur = &c
		}
	}
	// 3. preemptions: none at all (a schedule-independent violation), then only the last K (those nearest to the
	// violation), then blocks (ddmin-style) within a share of the budget
	if len(cur.Preempt) > 0 {
		c := *cur
		c.Preempt = nil
		if try(&c) {
			cur = &c
		}
	}
	if len(cur.Preempt) > 1 {
		lo, hi := 0, len(cur.Preempt) // smallest number of trailing preemptions that still reproduces
		for lo < hi {
			mid := (lo + hi) / 2
			c := *cur
			c.Preempt = append([]preemptPoint(nil), cur.Preempt[len(cur.Preempt)-mid:]...)
			if try(&c) {
				hi = mid
			} else {
				lo = mid + 1
			}
		}
		if hi < len(cur.Preempt) {
			c := *cur
			c.Preempt = append([]preemptPoint(nil), cur.Preempt[len(cur.Preempt)-hi:]...)
			if try(&c) {
				cur = &c
			}
		}
	}
	preShare := budget / 2
	for size := (len(cur.Preempt) + 1) / 2; size >= 1 && len(cur.Preempt) > 0 && budget > preShare; size /= 2 {
		for at := 0; at < len(cur.Preempt) && budget > preShare; {
			c := *cur
			end := at + size
			if end > len(cur.Preempt) {
				end = len(cur.Preempt)
			}
			c.Preempt = append(append([]preemptPoint(nil), cur.Preempt[:at]...), cur.Preempt[end:]...)
			if try(&c) {
				cur = &c
			} else {
				at += size
			}
		}
		if size == 1 {
			break
		}
	}
	// 4. zero blocks of the tape
	for size := (len(cur.Tape) + 1) / 2; size >= 1; size /= 2 {
		for at := 0; at < len(cur.Tape); at += size {
			allZero := true
			for i := at; i < at+size && i < len(cur.Tape); i++ {
				if cur.Tape[i] != 0 {
					allZero = false
				}
			}
			if allZero {
				continue
			}
			c := *cur
			c.Tape = append([]uint32(nil), cur.Tape...)
			for i := at; i < at+size && i < len(c.Tape); i++ {
				c.Tape[i] = 0
			}
			if try(&c) {
				cur = &c
			}
		}
		if size == 1 {
			break
		}
	}
	// trailing zeros carry no information
	for len(cur.Tape) > 0 && cur.Tape[len(cur.Tape)-1] == 0 {
		cur.Tape = cur.Tape[:len(cur.Tape)-1]
	}
	// 5. final confirmation in a fresh process, twice, identical trace
	okA, ra := tryReplay(ctx, cur, v, race)
	okB, rb := tryReplay(ctx, cur, v, race)
	if !okA || !okB || ra == nil || rb == nil || ra.TraceHash != rb.TraceHash {
		return base, nil // fall back to the (verified) seed replay
	}
	cur.TraceHash, cur.TraceTail, cur.Scenario = ra.TraceHash, ra.TraceTail, ra.Scenario
	for _, x := range ra.Violations {
		if x.Oracle == v.Oracle && x.Signature == v.Signature {
			xx := x
			cur.Violation = &xx
		}
	}
	cur.MinFrom = map[string]int{"tape_len": origTape, "preempt": origPre, "tape_len_min": len(cur.Tape), "preempt_min": len(cur.Preempt), "nonzero_min": nonzero(cur.Tape)}
	return cur, nil
}

func nonzero(t []uint32) int {
	n := 0
	for _, x := range t {
		if x != 0 {
			n++
		}
	}
	return n
}

func doReplay(ctx context.Context, path string) int {
	b, err := os.ReadFile(path)
	if err != nil {
		fmt.Println("HARNESS-ERROR", err)
		return 2
	}
	rf := &ReplayFile{}
	if err := json.Unmarshal(b, rf); err != nil {
		fmt.Println("HARNESS-ERROR", err)
		return 2
	}
	if rf.Property != "" && rf.Property != "C13" {
		raceOracle = rf.Property + ".race"
	}
	ro := runSim(ctx, rf.Race, "-replay", path, "-full")
	if ro.res == nil {
		if ro.crashSg != "" {
			fmt.Printf("replay: process died: %s\n%s\n", ro.crashSg, tail(ro.crash, 3000))
			if rf.Violation != nil && ro.crashSg == rf.Violation.Signature {
				fmt.Printf("VIOLATION property=%s replay=%s\n", rf.Property, path)
				return 1
			}
		}
		fmt.Println("HARNESS-ERROR replay produced no result:", ro.harness, tail(ro.crash, 1000))
		return 2
	}
	for _, l := range ro.res.TraceTail {
		fmt.Println("   ", l)
	}
	for _, v := range ro.res.Violations {
		fmt.Printf("violation: oracle=%s signature=%s step=%d t=%s\n  %s\n", v.Oracle, v.Signature, v.Step, v.SimT, firstLines(v.Detail, 30))
	}
	if rf.TraceHash != "" && ro.res.TraceHash != rf.TraceHash {
		fmt.Printf("note: trace hash %s differs from the recorded %s (the code under test changed, or the replay diverged)\n", ro.res.TraceHash, rf.TraceHash)
	}
	if rf.Violation != nil && hasViolation(ro.res, rf.Violation.Oracle, rf.Violation.Signature) {
		fmt.Printf("VIOLATION property=%s replay=%s\n", rf.Property, path)
		return 1
	}
	if len(ro.res.Violations) > 0 {
		fmt.Printf("VIOLATION property=%s replay=%s\n", rf.Property, path)
		return 1
	}
	fmt.Println("replay: no violation")
	return 0
}
