#!/bin/bash
# runs every registered check once (quick tier unless TIER is set) and prints a one-line summary each
TIER=${TIER:-quick}
for p in ${PROPS:-C01 C02 C03 C04 C05 C07 C08 C09 C10 C11 C12 C13 C14 C15 C16 C18 C20}; do
  out=$(./check $p --tier $TIER "$@" 2>&1); rc=$?
  echo "$out" | cut -c1-300 | grep -E "^(  oracle|C[0-9]+ (quick|thorough)|HARNESS|KNOWN)" | head -${LINES_PER:-8}
  echo "== $p exit=$rc"
done
