#!/bin/sh
exit 0
