#!/bin/bash
# Builds the framework tools from files on disk only (offline) and warms the Go build cache.
set -e
export GOFLAGS=-mod=mod GOPROXY=off GOSUMDB=off GOTOOLCHAIN=local
VERIF=$(cd "$(dirname "$0")" && pwd)
REPO=${VERIF_REPO:-/repo}
mkdir -p "$VERIF/bin"
( cd "$VERIF/cmd/instrument" && go build -o "$VERIF/bin/instrument" . )
( cd "$VERIF/cmd/driver" && go build -o "$VERIF/bin/driver" . )
[ "${1:-}" = "--tools-only" ] && exit 0
SCR=$(mktemp -d "${VERIF_SCRATCH:-/dev/shm}/verif-setup-XXXXXX")
trap 'rm -rf "$SCR"' EXIT
"$VERIF/bin/instrument" "$REPO" "$SCR/repo"
# acceptance test of the rewrite: the instrumented tree passes the repository's own test suite
( cd "$SCR/repo" && go test -vet=off -count=1 ./... ) > "$SCR/test.log" 2>&1 || { echo "instrumented tree fails the repository's tests"; tail -40 "$SCR/test.log"; exit 1; }
echo "instrumented tree passes the repository's test suite"
mkdir -p "$SCR/sim" && cp -r "$VERIF"/sim/. "$SCR/sim/" && cat "$REPO/go.sum" "$VERIF/sim/go.sum.extra" > "$SCR/sim/go.sum"
( cd "$SCR/sim" && go1.26.8 test -c -o "$SCR/sim.test" . && go1.26.8 test -race -c -o "$SCR/sim.race.test" . )
echo "simulator builds (plain and -race); build cache is warm"
