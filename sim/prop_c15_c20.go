package verifsim

import (
	"crypto/x509"
	"fmt"
	"net/url"
	"os"
	"path/filepath"
	"sort"
	"strings"
	"time"
)

// ---------------------------------------------------------------------------------------------
// C15 — Refresh liveness (bounded, in simulated time, after faults stop).
// C20 — Work-directory discipline and clean lifecycle.
// ---------------------------------------------------------------------------------------------

func init() {
	register(&PropDef{ID: "C15", Plan: func(tier string) Plan {
		n := 120
		if tier == "thorough" {
			n = 2500
		}
		return Plan{Runs: n, Level: "exploration", Rule: "one run = 1-3 validator instances (own work_dirs; equal or different update intervals; provisioned at equal or different phases) with CRL sources from {crl_files, crl_urls, CDP}, signature mode, fetch mode and backend drawn per run; a refresh-outcome history fail^k then succeed (k = 0..3; for a third of the CDP sources already the first load fails, failures from the origin fault menu incl. a newer list that fails signature verification); at t_p an acceptable newer version revoking a probe serial is published and faults stop; the scheduler is adversarial about which instance's refresh runs first; oracles: (a) every instance fetches every URL it knows in every window of 2*interval+eps after it learnt it, (b) at t_p + 3*interval + eps every instance rejects the newly revoked serial, (c) configured crl_files/crl_urls are in force when Provision returns; non-trivial = more than one instance, or at least one failed refresh before t_p; distinct = distinct (scenario, schedule) fingerprints"}
	}, Run: runC15})
	register(&PropDef{ID: "C20", Plan: func(tier string) Plan {
		n := 140
		if tier == "thorough" {
			n = 2500
		}
		return Plan{Runs: n, Level: "exploration", Rule: "one run = 1-4 provision/use/cleanup cycles of a validator on one work_dir (disk or memory) with location strings from a hostile menu (path traversal, encoded separators, backslashes, 4 KiB long, unicode, pairs equal after URL normalisation) used as CDP URLs, crl_urls and crl_files, foreign entries planted in the work_dir (names near the temp pattern), successful and failed loads/refreshes (origin and os.* fault menu), and Cleanup racing in-flight refreshes; oracles: every file operation inside the instance's work_dir and the sandbox around it unchanged; distinct locations never share a store and a location keeps its store across restarts; no crl_*_tmp artefact at quiescent points; foreign files survive; after Cleanup + 2 s no task of the instance is alive, database locks are released and Provision on the same work_dir succeeds; non-trivial = a hostile location string, a fault, or more than one cycle"}
	}, Run: runC20})
}

// c15signerRollover: the CA is re-keyed under its old name. The list at the distribution point, loaded while the old
// key signed it, is now issued under the new key: the refresh cannot verify it (mode verify) and keeps the old list -
// until a client of the re-keyed CA shakes hands and brings the new CA certificate in its chain. From then on the
// periodic refresh takes the new issues: within one more interval what they revoke is enforced.
func c15signerRollover(h *Harness) {
	tp := h.Tape
	sc := h.R.Scenario
	backend := []string{"memory", "disk"}[(h.Idx/8)%2]
	fetch := Pick(tp, "", "fetch_background")
	sc["scenario"], sc["backend"], sc["fetch"] = "signer-rollover", backend, fetch
	h.R.NonTrivial = true
	w := NewWorld(h, WorldOpts{})
	loc := w.NewLocation(LocOpts{Name: "L1", URL: "http://crl.sim/a.crl", Issuer: w.A, NVers: 3, Extra: Pick(tp, 2, 40), Width: 8})
	cfg := NodeCfg{Mode: "crl_only", Storage: backend, UpdateInterval: "10m", SigMode: "verify", FetchMode: fetch}
	n := h.NewNode("n1", cfg)
	if err := h.Provision(n); err != nil {
		h.Violation("C15.setup", "provision-failed", "%v", err)
		return
	}
	h.Handshake(n, "old-key-client", w.ChainFor(loc.Cert(loc.Never[0]), w.A))
	h.Settle(11 * time.Minute)
	if p := loc.Pattern(n); p != "v1" {
		h.Violation("C15.setup", "rollover:load-failed", "fault-free load of the list (old key) shows pattern %s", p)
		return
	}
	// the re-keyed CA issues v2 (and later v3) under the new key
	loc.Cur, loc.Variant = 1, "sibling"
	h.Settle(11 * time.Minute)
	p1 := loc.Pattern(n)
	newClient := w.Sib.Issue(EEOpts{Serial: loc.Never[0], CDP: []string{loc.URL}})
	hs := h.Handshake(n, "new-key-client", [][]*x509.Certificate{{newClient, w.Sib.Cert}})
	h.Settle(21 * time.Minute) // two ticks
	p2 := loc.Pattern(n)
	loc.Cur = 2
	h.Settle(21 * time.Minute)
	p3 := loc.Pattern(n)
	h.R.Checks += 2
	sc["patterns"] = fmt.Sprintf("%s %s %s", p1, p2, p3)
	if p2 != "v2" || p3 != "v3" {
		h.Violation("C15.b-revocation-enforced", "after-signer-rollover:"+backend, "a CA re-keyed under its old name: the list issued under the new key could not be verified (in force after the first refresh: %s, as it should be), then a client of the re-keyed CA shook hands (%s) and brought the new CA certificate; two refresh intervals later the list in force is %s (expected v2), and two intervals after v3 was published it is %s (expected v3): the refresh never recovered", p1, errStr(hs.Err), p2, p3)
	}
	h.R.Sample = map[string]any{"scenario": "signer-rollover", "backend": backend, "patterns": sc["patterns"]}
	h.Cleanup(n)
}

func runC15(h *Harness) {
	if h.Idx%8 == 5 {
		c15signerRollover(h)
		return
	}
	tp := h.Tape
	sc := h.R.Scenario
	nn := 1 + tp.Weighted(2, 3, 1)
	backend := Pick(tp, "memory", "disk", "")
	sig := Pick(tp, "verify", "", "verify_log", "none")
	fetch := Pick(tp, "", "fetch_actively", "fetch_background")
	samePhase := tp.Chance(2, 3)
	sameIvl := tp.Chance(2, 3)
	k := tp.Int(4)
	pre := Pick(tp, 0, 20, 100)
	h.S.pPre = uint64(pre) * (1 << 32) / 1000
	h.S.pSwitchNum = 50
	sc["nodes"], sc["backend"], sc["sig"], sc["fetch"], sc["same_phase"], sc["same_interval"], sc["fail_k"], sc["pre"] = nn, backend, sig, fetch, samePhase, sameIvl, k, pre
	if nn > 1 || k > 0 {
		h.R.NonTrivial = true
	}
	if k > 0 {
		h.R.Config = "faulty"
	}
	w := NewWorld(h, WorldOpts{Intermediate: tp.Chance(1, 2)})
	trusted := []string{h.WriteFile("trust/a.pem", CertPEM(w.A.Cert))}
	type inst struct {
		n      *Node
		ivl    time.Duration
		loc    *Location
		source string
		file   string
		learnt time.Duration
	}
	var insts []*inst
	maxIvl := time.Duration(0)
	for i := 0; i < nn; i++ {
		ivl := 10 * time.Minute
		if !sameIvl {
			ivl = []time.Duration{10 * time.Minute, 7 * time.Minute, 16 * time.Minute}[i%3]
		}
		if ivl > maxIvl {
			maxIvl = ivl
		}
		source := Pick(tp, "cdp", "url", "file")
		lo := LocOpts{Name: fmt.Sprintf("L%d", i+1), URL: fmt.Sprintf("http://crl%d.sim/x.crl", i+1), Issuer: w.A, NVers: 3, Extra: Pick(tp, 2, 40), Width: 8 + i, Base: uint32(i)}
		// what distinguishes the newer list from the one in force is its content and signature, nothing else need differ
		switch meta := Pick(tp, "", "", "", "same-times", "no-number-v2", "no-number-v1", "same-number", "same-times+same-number"); meta {
		case "same-times":
			lo.SameTimes = true
		case "no-number-v2":
			lo.NoNumber = 1
		case "no-number-v1":
			lo.NoNumber = 2
		case "same-number":
			lo.SameNumber = true
		case "same-times+same-number":
			lo.SameTimes, lo.SameNumber = true, true
		}
		sc[fmt.Sprintf("meta%d", i+1)] = fmt.Sprintf("same_times=%v no_number=%d same_number=%v", lo.SameTimes, lo.NoNumber, lo.SameNumber)
		loc := w.NewLocation(lo)
		cfg := NodeCfg{Mode: "crl_only", Storage: backend, UpdateInterval: ivl.String(), SigMode: sig, FetchMode: fetch, CDPStrict: false, TrustedSigFiles: trusted}
		in := &inst{ivl: ivl, loc: loc, source: source}
		switch source {
		case "url":
			cfg.CRLUrls = []string{loc.URL}
		case "file":
			in.file = h.WriteFile(fmt.Sprintf("files/l%d.crl", i+1), loc.Versions[0].Bytes)
			cfg.CRLFiles = []string{in.file}
		}
		in.n = h.NewNode(fmt.Sprintf("n%d", i+1), cfg)
		insts = append(insts, in)
	}
	sc["sources"] = func() (s []string) {
		for _, in := range insts {
			s = append(s, in.source)
		}
		return
	}()
	// provisioning (same phase: one after the other at the same instant; otherwise staggered)
	for i, in := range insts {
		if err := h.Provision(in.n); err != nil {
			h.Violation("C15.c-provision", "provision-failed:"+in.source+":"+fetch+":"+sig, "instance %s (source %s, fetch %q, signature mode %q): provisioning with an acceptable configured CRL failed: %v", in.n.Name, in.source, fetch, sig, err)
			return
		}
		// (c) configured CRLs are in force when Provision returns
		if in.source != "cdp" {
			h.R.Checks++
			if p := in.loc.Pattern(in.n); p != "v1" {
				h.Violation("C15.c-configured-in-force", "not-in-force:"+in.source+":"+fetch, "instance %s: Provision returned but the configured %s CRL is not in force (probe pattern %s; fetch mode %q)", in.n.Name, in.source, p, fetch)
			}
		}
		in.learnt = h.S.Now()
		if !samePhase && i+1 < len(insts) {
			h.Settle(time.Duration(1+tp.Int(4)) * time.Minute)
		}
	}
	// CDP locations are learnt by a first handshake
	// (a third of them while the origin misbehaves: the entry then exists without ever having been loaded, and it is the
	// periodic update that has to load it for the first time once the origin recovers)
	firstLoadFails := 0
	for _, in := range insts {
		if in.source == "cdp" {
			if tp.Chance(1, 3) {
				in.loc.State = Pick(tp, oDown, oHTTP500, oGarbage, oTrunc)
				firstLoadFails++
				h.R.NonTrivial = true
			}
			h.Handshake(in.n, "learn", w.ChainFor(in.loc.Cert(in.loc.Never[0]), w.A))
			in.learnt = h.S.Now()
		}
	}
	sc["first_load_fails"] = firstLoadFails
	h.Quiesce()
	// a refresh cycle that takes most of a period (one slow download): the tick that follows it closely may be skipped
	// by design, the ticks after that may not
	// (ONE instance's origin is slow: refresh cycles of all instances of a process run one at a time, and the design
	// allows a cycle "up to half the interval" — several slow origins at once are outside what the bounds below promise)
	if tp.Chance(1, 2) {
		in := insts[tp.Int(len(insts))]
		if in.source != "file" && in.loc.State == oGood {
			in.loc.SlowFirst, in.loc.Fetches = in.ivl*7/10, 0
			sc["slow_cycle"] = in.n.Name
		}
		h.Settle(2*maxIvl + time.Minute)
	}
	// fail^k: k refresh periods during which the origins misbehave
	faults := []string{oDown, oHTTP500, oGarbage, oTrunc, oEmpty, "badsig", "stranger"}
	var fseq []string
	for j := 0; j < k; j++ {
		for _, in := range insts {
			f := faults[tp.Int(len(faults))]
			fseq = append(fseq, f)
			if f == "badsig" || f == "stranger" {
				// the origin publishes the newer list in a form that fails signature verification: a refresh outcome
				// "rejected", after which the next acceptable list must still be fetched and applied
				in.loc.State, in.loc.Cur, in.loc.Variant = oGood, 1, f
				if in.source == "file" {
					os.WriteFile(in.file, in.loc.Doc().Bytes, 0600)
				}
				continue
			}
			in.loc.State, in.loc.Variant = f, ""
			if in.source == "file" {
				os.WriteFile(in.file, []byte("garbage"), 0600)
			}
		}
		h.Settle(maxIvl + time.Minute)
	}
	sc["fail_seq"] = fseq
	// t_p: publish the acceptable newer version; faults stop
	for _, in := range insts {
		in.loc.State, in.loc.Cur, in.loc.Variant = oGood, 1, ""
		if in.source == "file" {
			os.WriteFile(in.file, in.loc.Versions[1].Bytes, 0600)
		}
	}
	// "independently of other validator instances in the same process": from now on the origin of ONE instance accepts
	// connections and never answers (a black hole; nothing in the repository bounds a download). That instance is lost
	// to its own origin; the OTHERS must go on refreshing theirs and enforce what their origins publish.
	var blackHoled, hungOnce *inst
	if nn > 1 && tp.Chance(1, 3) {
		cand := insts[tp.Int(len(insts))]
		if cand.source != "file" && tp.Chance(1, 3) {
			// variant: ONE request of that instance is accepted and never answered; everything after it is served
			// normally. The instance stays under the promises: a download that never ends is a failed attempt like
			// any other, after which the next cycles fetch again.
			hungOnce = cand
			cand.loc.HangFirst, cand.loc.Fetches = 1, 0
			if h.S.noDeadlockNode == nil {
				h.S.noDeadlockNode = map[string]bool{}
			}
			h.S.noDeadlockNode[cand.n.Name] = true
			sc["hung_once"] = cand.n.Name
			h.R.NonTrivial = true
		} else if cand.source != "file" {
			blackHoled = cand
			cand.loc.State, cand.loc.StallFor = oStall, 200*time.Hour
			// (its own later ticks queue up behind the cycle that hangs in the download: that is this instance's
			// trouble, not a deadlock of the others)
			if h.S.noDeadlockNode == nil {
				h.S.noDeadlockNode = map[string]bool{}
			}
			h.S.noDeadlockNode[cand.n.Name] = true
			sc["black_holed"] = cand.n.Name
			h.R.NonTrivial = true
		}
	}
	tpub := h.S.Now()
	// in half of the runs a handshake that brings a NEW distribution point arrives while a refresh cycle is running
	// (the repository's map is written while the updater walks it)
	if tp.Chance(1, 2) {
		in := insts[tp.Int(len(insts))]
		ex := w.NewLocation(LocOpts{Name: "EX", URL: "http://extra.sim/e.crl", Issuer: w.A, NVers: 1, Extra: 1, Width: 15, Base: 8})
		// the instance knows two more locations already, so that the cycle has entries before and after the slow one
		var more []*Location
		for j := 0; j < 2; j++ {
			m := w.NewLocation(LocOpts{Name: fmt.Sprintf("EK%d", j), URL: fmt.Sprintf("http://known%d.sim/k.crl", j), Issuer: w.A, NVers: 1, Extra: 1, Width: 16 + j, Base: uint32(9 + j)})
			h.Handshake(in.n, "learn-more", w.ChainFor(m.Cert(m.Never[0]), w.A))
			more = append(more, m)
		}
		h.Quiesce()
		for _, x := range insts {
			x.loc.SlowFirst, x.loc.Fetches = 3*time.Second, 0 // each location's next download takes a while
		}
		for _, m := range more {
			m.SlowFirst, m.Fetches = 3*time.Second, 0
		}
		h.S.Run(func(v schedView) bool {
			for _, t := range v.parked {
				if t.kind == kStart && !t.client && t.Node == in.n.Name {
					return true
				}
			}
			return false
		}, h.S.Now()+maxIvl+time.Minute)
		// let the cycle get going, then bring the new location in
		h.S.Run(func(v schedView) bool { return in.loc.Fetches+more[0].Fetches+more[1].Fetches > 0 }, h.S.Now()+time.Minute)
		hs := h.StartHandshake(in.n, "new-cdp-during-cycle", w.ChainFor(ex.Cert(ex.Never[0]), w.A))
		h.Wait(hs.Task)
		h.Probe("new-location-during-refresh-cycle")
		sc["new_cdp_during_cycle"] = in.n.Name
	}
	h.Settle(3*maxIvl + 2*time.Minute)
	end := h.S.Now()
	for _, in := range insts {
		if in == blackHoled {
			continue // its origin never answers again: nothing is promised for it
		}
		// (b) the newly revoked serial is rejected
		cdp := []string{}
		if in.source == "cdp" {
			cdp = nil
		}
		hs := h.Handshake(in.n, "newly-revoked", w.ChainFor(in.loc.Cert(in.loc.OnlyV[1], cdp...), w.A))
		h.R.Checks++
		if !isRevokedErr(hs.Err) && in == hungOnce {
			h.Violation("C15.b-revocation-enforced", "after-hung-download:"+in.source, "instance %s (source %s, interval %v): one of its downloads was accepted by the origin and never answered; every later request would have been served, but %v later the instance has not fetched again and the newly revoked certificate is still %s: nothing bounds a download, the refresh cycle that hangs in it keeps the instance's update lock for good", in.n.Name, in.source, in.ivl, end-tpub, errStr(hs.Err))
			continue
		}
		if !isRevokedErr(hs.Err) {
			h.Violation("C15.b-revocation-enforced", fmt.Sprintf("not-enforced:%s:nodes=%d", in.source, nn), "instance %s (source %s, interval %v, %d instances, fetch %q, signature mode %q): %v after an acceptable newer CRL was published the newly revoked certificate is still %s (probe pattern %s)", in.n.Name, in.source, in.ivl, nn, fetch, sig, end-tpub, errStr(hs.Err), in.loc.Pattern(in.n))
		}
		// (a) fetch windows (not for the instance one of whose downloads hangs for good: (b) speaks for it)
		if in.source != "file" && in != hungOnce {
			var ts []time.Duration
			for _, x := range h.Net.HitsFor(in.loc.URL) {
				if x.Node == in.n.Name {
					ts = append(ts, x.T)
				}
			}
			win := 2*in.ivl + time.Minute
			prev := in.learnt
			ts = append(ts, end)
			for _, t := range ts {
				h.R.Checks++
				if t-prev > win {
					h.Violation("C15.a-fetch-window", fmt.Sprintf("gap:%s:nodes=%d", in.source, nn), "instance %s did not fetch %s between t=%v and t=%v (%v > 2*interval+1min = %v); %d instances in the process", in.n.Name, in.loc.URL, prev, t, t-prev, win, nn)
					break
				}
				prev = t
			}
		}
	}
	// (c) again, after a restart: the origin has published a third issue; the instance is stopped and provisioned again
	// on its work_dir (which, on disk, holds the second issue). What a configured CRL is "by the time provisioning
	// returns" is what its file or URL holds then - not what an earlier process left behind.
	if len(h.R.Violations) == 0 && tp.Chance(1, 2) {
		for _, in := range insts {
			if in == blackHoled || in == hungOnce || in.source == "cdp" {
				continue
			}
			in.loc.State, in.loc.Cur, in.loc.Variant = oGood, 2, ""
			if in.source == "file" {
				os.WriteFile(in.file, in.loc.Versions[2].Bytes, 0600)
			}
			h.Cleanup(in.n)
			h.Settle(30 * time.Second)
			m := h.NewNodeOn(in.n.Name+"r", in.n.Cfg, in.n.WorkDir)
			err := h.Provision(m)
			h.R.Checks++
			if err != nil {
				h.Violation("C15.c-provision", "provision-failed-after-restart:"+in.source, "instance %s: provisioning again on its work_dir failed although its configured %s CRL is available and acceptable: %v", in.n.Name, in.source, err)
			} else if p := in.loc.Pattern(m); p != "v3" {
				h.Violation("C15.c-configured-in-force", "stale-after-restart:"+in.source+":"+fetch, "instance %s: Provision returned after a restart, but the configured %s CRL in force is %s while its source holds v3 since before the restart (fetch mode %q, backend %q)", in.n.Name, in.source, p, fetch, backend)
			}
			in.n = m
			sc["restarted"] = true
		}
	}
	h.R.Sample = map[string]any{"instances": nn, "sources": sc["sources"], "fail_periods": k, "fetch": fetch, "sig": sig}
	for _, in := range insts {
		h.Cleanup(in.n)
	}
}

// ------------------------------------------------------------------------------------------ C20

var hostileURLs = []string{
	"http://crl.sim/a.crl",
	"http://crl.sim/../../../../etc/passwd",
	"http://crl.sim/%2e%2e%2f%2e%2e%2fescape.crl",
	"http://crl.sim/..%5c..%5cwin.crl",
	"http://crl.sim/a.crl?x=../../y",
	"http://crl.sim/ünï/côdé/☃.crl",
	"HTTP://crl.sim/a.crl",
	"http://crl.sim/a.crl#frag",
	"http://crl.sim//a.crl",
	"http://crl.sim/" + strings.Repeat("A", 4000) + ".crl",
	"http://crl.sim/a%00b.crl",
	"http://crl.sim/crl_x_tmp",
	"http://crl.sim/A.CRL",
	"http://crl.sim/pki/a.crl",
	"http://crl.sim/pki%2Fa.crl",
	"http://crl.sim/pki/a%3Bb.crl",
	"http://crl.sim/pki/a;b.crl",
}

// nearPairs are pairs of distinct resources (different bytes on the wire, different documents at the origin)
// that differ only in letter case of the path, in an encoded separator or in an encoded reserved character.
var nearPairs = [][]string{
	{"http://crl.sim/a.crl", "http://crl.sim/A.CRL"},
	{"http://crl.sim/pki/a.crl", "http://crl.sim/pki%2Fa.crl"},
	{"http://crl.sim/pki/a%3Bb.crl", "http://crl.sim/pki/a;b.crl"},
	{"http://crl.sim/a.crl", "http://crl.sim//a.crl"},
	{"http://crl.sim/a.crl", "http://crl.sim/a.crl?x=../../y"},
}

func runC20(h *Harness) {
	tp := h.Tape
	sc := h.R.Scenario
	backend := Pick(tp, "disk", "disk", "memory")
	cycles := 1 + tp.Int(4)
	faulty := tp.Chance(1, 2)
	h.S.pPre = uint64(Pick(tp, 0, 30)) * (1 << 32) / 1000
	h.S.pDelayDen, h.S.delayFor = Pick(tp, 0, 0, 6), 2*time.Second // short: the post-Cleanup census allows 42 s
	sc["backend"], sc["cycles"], sc["faulty"] = backend, cycles, faulty
	if faulty {
		h.R.Config = "faulty"
	}
	// how the configuration spells the work_dir (every instance of the run spells it the same way)
	spelling := []string{"", "trailing-slash", "", "dot-prefix", "", "double-slash"}[h.Idx%6]
	sc["workdir_spelling"] = spelling
	w := NewWorld(h, WorldOpts{})
	// locations with hostile names
	nl := 2 + tp.Int(3)
	type loc20 struct {
		*Location
		store string // directory that appeared when the location was first used
	}
	var locs []*loc20
	used := map[string]bool{}
	// half of the runs start with a pair of DIFFERENT resources whose names are easily conflated
	var forced []string
	if tp.Chance(1, 2) {
		forced = nearPairs[tp.Int(len(nearPairs))]
		sc["near_pair"] = forced
	}
	for i := 0; i < nl; i++ {
		u := hostileURLs[tp.Int(len(hostileURLs))]
		if i < len(forced) {
			u = forced[i]
		}
		if used[u] {
			continue
		}
		used[u] = true
		if u != hostileURLs[0] {
			h.R.NonTrivial = true
		}
		l := w.NewLocation(LocOpts{Name: fmt.Sprintf("L%d", i+1), URL: u, Issuer: w.A, NVers: 3, Extra: 2, Width: 8 + i, Base: uint32(i)})
		// the transport sees the URL as net/http sends it
		if nu := normSent(u); nu != u {
			h.Net.Handle(nu, l.serve)
		}
		locs = append(locs, &loc20{Location: l})
	}
	sc["urls"] = func() (s []string) {
		for _, l := range locs {
			u := l.URL
			if len(u) > 60 {
				u = u[:60] + "…"
			}
			s = append(s, u)
		}
		return
	}()
	trusted := []string{h.WriteFile("trust/a.pem", CertPEM(w.A.Cert))}
	// a hostile crl_files name
	fileName := Pick(tp, "files/plain.crl", "files/sub dir/ü ☃.crl", "files/crl_evil_tmp")
	fileLoc := w.NewLocation(LocOpts{Name: "LF", URL: "http://unused.sim/f", Issuer: w.A, NVers: 1, Extra: 1, Width: 14, Base: 7})
	filePath := h.WriteFile(fileName, fileLoc.Versions[0].Bytes)
	cfg := NodeCfg{Mode: "crl_only", Storage: backend, UpdateInterval: "10m", SigMode: "verify", TrustedSigFiles: trusted, CRLFiles: []string{filePath}}
	if tp.Chance(1, 2) {
		cfg.CRLUrls = []string{locs[0].URL}
	}
	sandbox := filepath.Join(h.Root, "sandbox")
	wd := filepath.Join(sandbox, "workdir_n1")
	os.MkdirAll(wd, 0700)
	// foreign entries in the work_dir
	foreign := map[string]bool{"crl_backup_tmp.txt": false, "xcrl_1_tmp": false, "notes.txt": false, "abcdef0123": true, "crl_tmp": false}
	for name, dir := range foreign {
		p := filepath.Join(wd, name)
		if dir {
			os.MkdirAll(p, 0700)
			os.WriteFile(filepath.Join(p, "keep.me"), []byte("x"), 0600)
		} else {
			os.WriteFile(p, []byte("foreign"), 0600)
		}
	}
	foreignNames := map[string]bool{}
	for name := range foreign {
		foreignNames[name] = true
	}
	outside := func() []string {
		var out []string
		for _, e := range ListTree(sandbox) {
			if !strings.HasPrefix(e, "workdir_n1/") && e != "workdir_n1/" {
				out = append(out, e)
			}
		}
		return out
	}
	before := outside()
	stores := map[string]string{} // URL -> store directory
	usedLocs := map[string]bool{}
	var checkQuiescent func(n *Node, when string)
	cleanupAndCheck := func(n *Node, c int, how string) {
		h.Cleanup(n)
		h.Settle(2 * time.Second)
		h.Settle(40 * time.Second) // in-flight work of the old instance may still be retrying; it must end
		h.R.Checks++
		if alive := h.S.AliveTasks(n.Name); len(alive) > 0 {
			var short []string
			for _, a := range alive {
				short = append(short, shortKey(a))
			}
			h.Violation("C20.lifecycle-leak", "goroutine-leak:"+how+leakClass(alive), "cycle %d: %d task(s) of the instance are still alive 42 s after Cleanup%s: %v", c+1, len(alive), map[bool]string{true: " (" + how + ")"}[how != ""], short)
		}
		h.R.Checks++
		if open := h.Disk.OpenDatabases(); len(open) > 0 {
			h.Violation("C20.lifecycle-leak", "db-handles-open", "cycle %d: 42 s after Cleanup %d database(s) of the instance are still open (their locks are held): %v", c+1, len(open), open)
		}
		checkQuiescent(n, fmt.Sprintf("cycle %d after cleanup", c+1))
	}
	checkQuiescent = func(n *Node, when string) {
		h.R.Checks++
		tree := h.TreeOf(n)
		if tmp := tmpArtefacts(tree); len(tmp) > 0 {
			h.Violation("C20.temp-artefacts", "tmp:"+backend, "%s: temporary artefacts remain in the work_dir: %v", when, tmp)
		} else if stray := h.strayEntries(wd, foreignNames); len(stray) > 0 {
			h.Violation("C20.temp-artefacts", "stray:"+backend, "%s: the work_dir holds entries that are neither foreign nor a database of the validator: %v", when, stray)
		}
		for name, dir := range foreign {
			p := filepath.Join(wd, name)
			if dir {
				p = filepath.Join(p, "keep.me")
			}
			if _, err := os.Stat(p); err != nil {
				h.Violation("C20.foreign-deleted", "foreign:"+name, "%s: the foreign entry %s in the work_dir was removed", when, name)
			}
		}
		if len(h.Disk.Escapes) > 0 {
			h.Violation("C20.confinement", "escape", "%s: file operations outside the work_dir: %v", when, h.Disk.Escapes)
			h.Disk.Escapes = nil
		}
		if after := outside(); strings.Join(after, "\n") != strings.Join(before, "\n") {
			h.Violation("C20.confinement", "sandbox-changed", "%s: the directory tree around the work_dir changed: before %v after %v", when, before, after)
			before = after
		}
	}
	storeDirs := func() []string {
		var out []string
		ents, _ := os.ReadDir(wd)
		for _, e := range ents {
			if e.IsDir() && len(e.Name()) == 64 {
				out = append(out, e.Name())
			}
		}
		sort.Strings(out)
		return out
	}
	var n *Node
	for c := 0; c < cycles; c++ {
		if c > 0 {
			h.R.NonTrivial = true
		}
		usedLocs = map[string]bool{} // a new instance learns locations anew
		if c == 0 {
			n = h.NewNode("n1", cfg)
		} else {
			n = h.NewNodeOn(fmt.Sprintf("n1c%d", c), cfg, wd)
		}
		switch spelling {
		case "trailing-slash":
			n.WorkDirAs = wd + "/"
		case "dot-prefix":
			if !filepath.IsAbs(wd) {
				n.WorkDirAs = "./" + wd
			}
		case "double-slash":
			n.WorkDirAs = filepath.Dir(wd) + "//" + filepath.Base(wd)
		}
		for _, l := range locs {
			l.State, l.Variant = oGood, "" // configured URLs must be reachable for provisioning to be expected to succeed
		}
		h.Disk.OsFault = nil
		// what an instance that was killed in the middle of a load leaves behind, in both of its name forms: the download
		// file (crl_<digits>_tmp, from os.CreateTemp) and a staging database (crl_<uuid>_tmp); start-up removes them
		if tp.Chance(1, 2) {
			os.WriteFile(filepath.Join(wd, fmt.Sprintf("crl_%d_tmp", 1000000+tp.Int(8999999))), []byte("half a download"), 0600)
			ld := filepath.Join(wd, fmt.Sprintf("crl_%08x-1f2e-11f0-9abc-0242ac12%04x_tmp", 0x10000000+tp.Int(1<<24), c))
			os.MkdirAll(ld, 0700)
			os.WriteFile(filepath.Join(ld, "000001.log"), []byte("x"), 0600)
			sc["planted_leftovers"] = true
		}
		if err := h.Provision(n); err != nil {
			cls := "first"
			if c > 0 {
				cls = "again"
			}
			h.Violation("C20.provision", "provision-failed:"+cls, "cycle %d: Provision on the work_dir failed: %v", c+1, err)
			return
		}
		// Cleanup that arrives while the updater is still in its very first pass: the configured origin, good while
		// Provision ran, stalls now; a second later the instance is cleaned up. Nothing of it may stay behind.
		if len(cfg.CRLUrls) > 0 && tp.Chance(1, 3) {
			locs[0].State, locs[0].StallFor = oStall, 20*time.Second
			h.Settle(time.Second)
			locs[0].State, locs[0].StallFor = oGood, 0 // the one request in flight hangs for its 20 s; the retry after it is served
			h.Probe("cleanup-during-first-updater-pass")
			h.R.NonTrivial = true
			cleanupAndCheck(n, c, "first-updater-pass:")
			if len(h.R.Violations) > 0 {
				return
			}
			continue
		}
		h.Quiesce()
		checkQuiescent(n, fmt.Sprintf("cycle %d after provision", c+1))
		// use: handshakes naming the hostile locations as CDP; origin faults and os faults in between
		for j := 0; j < 2+tp.Int(3); j++ {
			l := locs[tp.Int(len(locs))]
			if faulty && tp.Chance(1, 3) {
				l.State, l.Variant = Pick(tp, oDown, oGarbage, oTrunc, oHTTP500, "badsig", "badsig"), ""
				if l.State == "badsig" {
					l.State, l.Variant = oGood, "badsig" // delivered intact, rejected by signature verification
				}
				h.R.NonTrivial = true
			} else {
				l.State, l.Variant = oGood, ""
			}
			if faulty && tp.Chance(1, 4) {
				base := len(h.Disk.OsLog)
				kk := 1 + tp.Int(10)
				h.Disk.OsFault = func(nn int, op string, paths []string, node string) error {
					if nn-base >= kk && op != "remove" && op != "removeall" && kk > 0 {
						kk = -1 // one fault; never on the removal of a temporary artefact itself (nobody could clean up then)
						return ErrIO
					}
					return nil
				}
				h.R.NonTrivial = true
			}
			dirs0 := storeDirs()
			h.Handshake(n, fmt.Sprintf("use%d", j), w.ChainFor(l.Cert(l.Never[0]), w.A))
			h.Quiesce()
			h.Disk.OsFault = nil
			if backend == "disk" {
				dirs1 := storeDirs()
				var added []string
				for _, d := range dirs1 {
					found := false
					for _, x := range dirs0 {
						if x == d {
							found = true
						}
					}
					if !found {
						added = append(added, d)
					}
				}
				if len(added) == 1 {
					if prev, ok := stores[l.URL]; ok && prev != added[0] {
						h.Violation("C20.store-identity", "location-moved", "location %.60q used store %s before and %s now", l.URL, prev, added[0])
					}
					for u, d := range stores {
						if d == added[0] && u != l.URL && normSent(u) != normSent(l.URL) {
							h.Violation("C20.store-identity", "store-shared", "distinct locations %.60q and %.60q share the store %s", u, l.URL, d)
						}
					}
					stores[l.URL] = added[0]
				}
			}
			// distinct resources never answer for one another (fault-free runs: every load succeeds)
			if !faulty {
				usedLocs[l.URL] = true
				for _, u := range locs {
					if !usedLocs[u.URL] {
						continue
					}
					alias := false
					for _, o := range locs {
						if o != u && normSent(o.URL) == normSent(u.URL) {
							alias = true // the same resource under two spellings: sharing is legitimate
						}
					}
					if alias {
						continue
					}
					if pt := u.Pattern(n); !strings.HasPrefix(pt, "v") {
						h.Violation("C20.store-identity", "answers-from-another-location", "cycle %d use %d: after loading %.60q the probes for location %.60q show %s instead of its own list: distinct locations share a store or an identifier", c+1, j+1, l.URL, u.URL, pt)
					}
				}
			}
			checkQuiescent(n, fmt.Sprintf("cycle %d after use %d", c+1, j+1))
			if tp.Chance(1, 3) {
				if l.Cur < 2 {
					l.Cur++
				}
				h.Settle(10*time.Minute + 30*time.Second)
				checkQuiescent(n, fmt.Sprintf("cycle %d after tick", c+1))
			}
			if len(h.R.Violations) > 0 {
				return
			}
		}
		// a background first load that is overtaken: the first handshake for a new location finds its origin down (the
		// entry exists, nothing is loaded); the origin recovers; the next refresh cycle starts loading the entry and is
		// served slowly; a handshake arriving meanwhile loads the list itself. Whoever loses must leave nothing behind.
		if tp.Chance(1, 3) {
			lo := w.NewLocation(LocOpts{Name: fmt.Sprintf("LO%d", c), URL: fmt.Sprintf("http://late%d.sim/o.crl", c), Issuer: w.A, NVers: 1, Extra: Pick(tp, 1, 30), Width: 13, Base: uint32(8 + c)})
			lo.State = oDown
			h.Handshake(n, "late/down", w.ChainFor(lo.Cert(lo.Never[0]), w.A))
			lo.State, lo.Fetches, lo.SlowFirst = oGood, 0, 3*time.Second
			h.S.Run(func(v schedView) bool { return lo.Fetches > 0 }, h.S.Now()+11*time.Minute)
			if lo.Fetches > 0 {
				h.Probe("background-first-load-overtaken")
			}
			h.Handshake(n, "late/overtake", w.ChainFor(lo.Cert(lo.Never[0]), w.A))
			h.Settle(30 * time.Second)
			h.Quiesce()
			h.R.NonTrivial = true
			checkQuiescent(n, fmt.Sprintf("cycle %d after a background first load was overtaken by a handshake", c+1))
			if len(h.R.Violations) > 0 {
				return
			}
		}
		// a refresh whose very last step fails: the new database is in place, but it cannot be opened again (every
		// attempt fails). Whatever the clean-up of the failed refresh removes, it is not the database of the location.
		degraded := false
		if backend == "disk" && faulty && len(stores) > 0 && tp.Chance(1, 3) {
			for _, l := range locs {
				if l.Cur < 2 {
					l.Cur++
				}
				l.State, l.Variant = oGood, ""
			}
			h.Disk.StFault = func(nn int, op, file string, size int) (error, int) {
				if StackHas("LevelDbStore).Update") && StackHas("openDbWithRetries") {
					return ErrIO, 0
				}
				return nil, 0
			}
			// the next refresh cycle, from its start to well past its end (every location fails after 5 attempts, 1 s apart)
			h.S.Run(func(v schedView) bool {
				for _, t := range v.parked {
					if t.kind == kStart && !t.client {
						return true
					}
				}
				return false
			}, h.S.Now()+10*time.Minute+time.Second)
			h.Settle(3 * time.Minute)
			h.Disk.StFault = nil
			h.Quiesce()
			h.R.NonTrivial = true
			for u, d := range stores {
				h.R.Checks++
				if _, err := os.Stat(filepath.Join(wd, d)); err != nil {
					h.Violation("C20.live-store-deleted", "after-failed-reopen", "cycle %d: after a refresh whose final reopen of the swapped-in database failed, the database directory %s of location %.50q is gone (%v)", c+1, d, u, err)
				}
			}
			checkQuiescent(n, fmt.Sprintf("cycle %d after a refresh whose final reopen failed", c+1))
			if len(h.R.Violations) > 0 {
				return
			}
			degraded = true // those stores stay closed (lookups fail closed) until a later refresh: nothing else is asked of this instance
		}
		// several NEW locations are met at the same time (handshakes of different clients): each gets its own store, none
		// answers for another, nothing stray is left - whoever computes names and creates directories concurrently
		if tp.Chance(1, 3) && !degraded {
			savePre := h.S.pPre
			h.S.pPre = uint64(Pick(tp, 100, 300, 500)) * (1 << 32) / 1000
			var fresh []*Location
			var calls []*HS
			for k := 0; k < 3+tp.Int(3); k++ {
				u := fmt.Sprintf("http://crl.sim/concurrent/%d/%d/%s.crl", c, k, strings.Repeat("x", 1+17*k))
				l := w.NewLocation(LocOpts{Name: fmt.Sprintf("LC%d_%d", c, k), URL: u, Issuer: w.A, NVers: 1, Extra: 1, Width: 12, Base: uint32(20 + 8*c + k)})
				fresh = append(fresh, l)
				calls = append(calls, h.StartHandshake(n, fmt.Sprintf("concurrent-new%d", k), w.ChainFor(l.Cert(l.Never[0]), w.A)))
			}
			var ts []*Task
			for _, x := range calls {
				ts = append(ts, x.Task)
			}
			h.Wait(ts...)
			h.S.pPre = savePre
			h.Quiesce()
			h.R.NonTrivial = true
			for i, l := range fresh {
				h.R.Checks++
				if calls[i].Err != nil {
					h.Violation("C20.store-identity", "concurrent-first-use-denied", "cycle %d: the first handshake for the new location %.50q, concurrent with first handshakes for other new locations, was denied: %v (all origins healthy)", c+1, l.URL, calls[i].Err)
				} else if pt := l.Pattern(n); pt != "v1" {
					h.Violation("C20.store-identity", "concurrent-first-use:answers-from-another-location", "cycle %d: after concurrent first use of %d new locations the probes for %.50q show %s instead of its own list", c+1, len(fresh), l.URL, pt)
				}
			}
			checkQuiescent(n, fmt.Sprintf("cycle %d after concurrent first use of %d new locations", c+1, len(fresh)))
			if len(h.R.Violations) > 0 {
				return
			}
		}
		// the work_dir belongs to the live instance: a second validator configured with the same work_dir is refused, its
		// Cleanup (Caddy cleans up a module whose Provision failed) takes nothing away from the owner, and a third one is
		// refused just the same; the owner's stores are untouched
		if tp.Chance(1, 3) && !degraded {
			var errs []error
			for k, tag := range []string{"b", "c"} {
				x := h.NewNodeOn(fmt.Sprintf("n1c%d%s", c, tag), cfg, wd)
				x.WorkDirAs = n.WorkDirAs
				err := h.Provision(x)
				errs = append(errs, err)
				h.R.Checks++
				if err == nil {
					h.Violation("C20.workdir-exclusive", map[int]string{0: "second-instance-accepted", 1: "accepted-after-a-refused-instance-was-cleaned-up"}[k], "cycle %d: while the instance that owns the work_dir is live, another validator configured with the same work_dir was provisioned successfully (attempt %d)", c+1, k+1)
				}
				h.Cleanup(x)
				h.Settle(2 * time.Second)
			}
			h.R.NonTrivial = true
			sc["intruders"] = fmt.Sprint(errs)
			h.Quiesce()
			checkQuiescent(n, fmt.Sprintf("cycle %d after two refused instances on the same work_dir", c+1))
			if !faulty {
				for _, u := range locs {
					alias := false
					for _, o := range locs {
						if o != u && normSent(o.URL) == normSent(u.URL) {
							alias = true // the same resource under two spellings (with different content in this model)
						}
					}
					if usedLocs[u.URL] && !alias {
						if pt := u.Pattern(n); !strings.HasPrefix(pt, "v") {
							h.Violation("C20.live-store-deleted", "after-refused-instances", "cycle %d: after two refused instances on its work_dir the owner no longer answers from the list of %.60q (pattern %s)", c+1, u.URL, pt)
						}
					}
				}
			}
			if len(h.R.Violations) > 0 {
				return
			}
		}
		// Cleanup, possibly while a refresh is in flight
		if tp.Chance(1, 2) {
			h.S.Run(func(v schedView) bool {
				for _, t := range v.parked {
					if t.kind == kStart && !t.client {
						return true
					}
				}
				return false
			}, h.S.Now()+10*time.Minute+time.Second)
			h.Probe("cleanup-with-refresh-in-flight")
		}
		cleanupAndCheck(n, c, "")
		if len(h.R.Violations) > 0 {
			return
		}
	}
	h.R.Sample = map[string]any{"cycles": cycles, "urls": sc["urls"], "backend": backend, "file": fileName}
}

func leakClass(alive []string) string {
	set := map[string]bool{}
	for _, a := range alive {
		i := strings.LastIndex(a, ">")
		x := a[i+1:]
		if j := strings.IndexAny(x, ":#"); j > 0 {
			x = x[:j]
		}
		set[x] = true
	}
	return strings.Join(sortedKeys(set), "+")
}

// normSent: the URL as it appears in the request net/http sends (parsed and re-serialised, fragment dropped).
func normSent(u string) string {
	p, err := url.Parse(u)
	if err != nil {
		return u
	}
	p.Fragment = ""
	return p.String()
}
