package verifsim

import (
	"fmt"
	"math/big"
	"strings"
	"time"

	"github.com/anishathalye/porcupine"
)

// C13 — Concurrency safety. 2-6 client tasks over 1-2 validators; the scheduler preempts at
// statement boundaries with p = 0.2. The binary is built with -race (hand-offs between tasks are
// hidden from the detector, so only the repository's own synchronisation orders its accesses).
//
//	phase 1  cold start: concurrent first-use handshakes on shared and distinct locations
//	phase 2  a newer list is published: handshakes + periodic refresh + UpdateCRL + forced background refresh
//	phase 3  the state "last refresh failed signature verification", then concurrent handshakes
//	phase 4  OCSP lookups concurrent with cache expiry
//	phase 5  handshakes concurrent with Cleanup
//
// Oracles: no race report with both stacks in the repository (driver), no deadlock, every call
// returns, no panic, and every verdict is one a sequential order of the same operations allows.

func init() {
	register(&PropDef{ID: "C13", Plan: func(tier string) Plan {
		n := 64
		if tier == "thorough" {
			n = 900
		}
		return Plan{Runs: n, Race: true, Level: "exploration", Rule: "one run = ten concurrent phases (cold-start handshakes; in background mode two new locations met in quick succession; concurrent first use of a location whose first download fails through all its retries; first use of a new multi-URL location while a refresh tick runs; a first-use download that is in flight when a refresh cycle begins; handshakes overtaking a slow background first load; handshakes vs tick vs UpdateCRL vs forced background refresh; handshakes after a refresh that failed signature verification, then racing the refresh that recovers from it; OCSP lookups around cache expiry; handshakes vs Cleanup) with 2-6 client tasks over 1-2 validators, backend, fetch mode and preemption density drawn per run, executed under the race detector; non-trivial = at least 10 task switches happened inside a phase; distinct = distinct schedule fingerprints"}
	}, Run: runC13})
}

func runC13(h *Harness) {
	tp := h.Tape
	backend := Pick(tp, "memory", "disk")
	fetch := Pick(tp, "", "fetch_background")
	pre := Pick(tp, 200, 50, 200, 400)
	nnodes := 1 + tp.Weighted(3, 1)
	nclients := 2 + tp.Int(5)
	h.S.pPre = uint64(pre) * (1 << 32) / 1000
	h.S.pSwitchNum = 50
	// in two thirds of the runs, tasks that have just given up a lock are held back at a seeded subset of such sites
	h.S.pDelayDen, h.S.delayFor = Pick(tp, 0, 5, 5, 10), Pick(tp, 2*time.Second, 20*time.Second)
	sc := h.R.Scenario
	sc["backend"], sc["fetch"], sc["pre"], sc["nodes"], sc["clients"] = backend, fetch, pre, nnodes, nclients
	sc["delay_den"] = h.S.pDelayDen
	h.S.pHoldDen, h.S.holdFor = Pick(tp, 0, 4, 8), Pick(tp, 2*time.Second, 10*time.Second) // tasks held back while they hold a lock
	sc["hold_den"] = h.S.pHoldDen
	h.S.stallSteps = Pick(tp, 0, 30, 300)
	strict := fetch == "" // in background mode a strict validator legitimately denies until the fetch is done
	w := NewWorld(h, WorldOpts{Intermediate: tp.Chance(1, 2)})
	l1 := w.NewLocation(LocOpts{Name: "L1", URL: "http://crl.sim/a.crl", Issuer: w.A, NVers: 3, Extra: Pick(tp, 2, 20, 100), Width: 8})
	l2 := w.NewLocation(LocOpts{Name: "L2", URL: "http://crl2.sim/b.crl", Issuer: w.B, NVers: 2, Extra: 3, Width: 9, Base: 1})
	l3 := w.NewLocation(LocOpts{Name: "L3", URL: "http://crl3.sim/c.crl", Issuer: w.A, NVers: 2, Extra: 3, Width: 10, Base: 2})
	resp := w.NewResponder("http://ocsp.sim/a", w.A)
	trusted := []string{h.WriteFile("trust/a.pem", CertPEM(w.A.Cert)), h.WriteFile("trust/b.pem", CertPEM(w.B.Cert))}
	var nodes []*Node
	for i := 0; i < nnodes; i++ {
		cfg := NodeCfg{Mode: "prefer_crl", Storage: backend, UpdateInterval: "10m", SigMode: "verify", FetchMode: fetch, CDPStrict: strict,
			CRLUrls: []string{l3.URL}, TrustedSigFiles: trusted, OCSPCache: "30s"}
		n := h.NewNode(fmt.Sprintf("n%d", i+1), cfg)
		nodes = append(nodes, n)
	}
	// provisioning of several validators happens concurrently (Caddy provisions modules one after another,
	// but two servers' validators share the process-wide state)
	var pts []*Task
	for _, n := range nodes {
		pts = append(pts, h.StartProvision(n))
	}
	h.Wait(pts...)
	for _, n := range nodes {
		if n.ProvErr != nil {
			if fetch == "fetch_background" {
				h.Probe("provision-failed-background")
				h.R.Scenario["provision"] = n.ProvErr.Error()
				return
			}
			h.Violation("C13.setup", "provision-failed", "%v", n.ProvErr)
			return
		}
		n.syncProvisioned()
	}
	type call struct {
		hs     *HS
		loc    *Location
		serial *big.Int
		class  string
		node   *Node
	}
	mkcert := func(l *Location, class string) (*big.Int, string) {
		switch class {
		case "common":
			return l.Common, class
		case "never":
			return l.Never[tp.Int(len(l.Never))], class
		}
		k := tp.Int(len(l.OnlyV))
		return l.OnlyV[k], fmt.Sprintf("only%d", k)
	}
	spawn := func(n *Node, l *Location, class string, ocspURL []string) *call {
		s, cl := mkcert(l, class)
		cert := l.Issuer.Issue(EEOpts{Serial: s, CDP: []string{l.URL}, OCSP: ocspURL})
		c := &call{loc: l, serial: s, class: cl, node: n}
		c.hs = h.StartHandshake(n, l.Name+"/"+cl, w.ChainFor(cert, l.Issuer))
		return c
	}
	waitAll := func(cs []*call, extra ...*Task) {
		var ts []*Task
		for _, c := range cs {
			ts = append(ts, c.hs.Task)
		}
		ts = append(ts, extra...)
		h.Wait(ts...)
	}
	sw0 := h.S.switches
	// ---------------------------------------------------------------- phase 1: cold start
	var cs []*call
	for i := 0; i < nclients; i++ {
		n := nodes[tp.Int(len(nodes))]
		l := Pick(tp, l1, l1, l2)
		cs = append(cs, spawn(n, l, Pick(tp, "common", "never", "only"), nil))
	}
	waitAll(cs)
	h.Settle(30 * time.Second)
	for _, c := range cs {
		h.R.Checks++
		listed := c.loc.Lists(c.loc.Cur, c.serial)
		v := errStr(c.hs.Err)
		switch {
		case strict && listed && v != "revoked":
			h.Violation("C13.verdict", "cold-start:listed-not-revoked", "phase 1: %s on %s for a serial listed in the only published version returned %s", c.class, c.loc.Name, v)
		case strict && !listed && v != "accept":
			h.Violation("C13.verdict", "cold-start:unlisted-not-accepted", "phase 1: %s on %s for an unlisted serial returned %s (origin healthy, strict, active fetch)", c.class, c.loc.Name, v)
		case !strict && !listed && v != "accept":
			h.Violation("C13.verdict", "cold-start:lenient-deny", "phase 1 (background fetch, lenient): unlisted %s returned %s", c.class, v)
		case !strict && listed && v != "revoked" && v != "accept":
			h.Violation("C13.verdict", "cold-start:lenient-error", "phase 1 (background fetch, lenient): listed %s returned %s", c.class, v)
		}
	}
	// ---------------------------------------------------------------- phase 1b: first use of a new location while a tick is due
	var tickSeen time.Duration // when a tick of the first validator was seen starting its cycle: the later ones follow every 10 minutes
	{
		l4 := w.NewLocation(LocOpts{Name: "L4", URL: "http://crl4.sim/d.crl", Issuer: w.A, NVers: 1, Extra: 2, Width: 11, Base: 3})
		cdp4 := []string{"http://dead4.sim/x.crl", l4.URL}       // several URLs: the loader remembers which one worked
		l4.SlowFirst = Pick(tp, 0, 2*time.Second, 2*time.Second) // whoever asks first (updater or handshake) is overtaken by the other
		h.S.Run(func(v schedView) bool {
			for _, t := range v.parked {
				if t.kind == kStart && !t.client {
					return true
				}
			}
			return false
		}, h.S.Now()+11*time.Minute)
		tickSeen = h.S.Now()
		cs = nil
		n0 := nodes[0]
		for i := 0; i < 2+nclients/2; i++ {
			s, cl := mkcert(l4, Pick(tp, "common", "never"))
			cert := l4.Issuer.Issue(EEOpts{Serial: s, CDP: cdp4})
			c := &call{loc: l4, serial: s, class: cl, node: n0}
			c.hs = h.StartHandshake(n0, "L4/"+cl, w.ChainFor(cert, l4.Issuer))
			cs = append(cs, c)
		}
		waitAll(cs)
		h.Settle(30 * time.Second)
		for _, c := range cs {
			h.R.Checks++
			listed := c.loc.Lists(0, c.serial)
			v := errStr(c.hs.Err)
			if strict && ((listed && v != "revoked") || (!listed && v != "accept")) {
				h.Violation("C13.verdict", "first-use-during-tick", "phase 1b: %s on a location first used while a refresh tick ran returned %s", c.class, v)
			}
		}
	}
	// ---------------------------------------------------------------- phase 1b': a first-use download in flight when the tick fires
	if fetch != "fetch_background" {
		// the handshakes start 15 s before the next tick, their download takes 30 s: the refresh cycle begins while the
		// download (its temporary file, its staging database) is under way. The origin is healthy: every sequential
		// order of cycle and handshakes gives the listed certificate 'revoked'
		l5 := w.NewLocation(LocOpts{Name: "L5", URL: "http://crl5.sim/e.crl", Issuer: w.A, NVers: 1, Extra: Pick(tp, 2, 40), Width: 12, Base: 5})
		l5.SlowFirst = 30 * time.Second
		ivl := 10 * time.Minute
		next := tickSeen
		for next-15*time.Second <= h.S.Now() {
			next += ivl
		}
		h.Settle(next - 15*time.Second - h.S.Now())
		cs = nil
		n0 := nodes[0]
		for i := 0; i < 1; i++ { // one handshake: a second one would load the list after the first one's failure and hide it
			s, cl := mkcert(l5, []string{"common", "never"}[i])
			c := &call{loc: l5, serial: s, class: cl, node: n0}
			c.hs = h.StartHandshake(n0, "L5/"+cl, w.ChainFor(l5.Cert(s), l5.Issuer))
			cs = append(cs, c)
		}
		waitAll(cs)
		h.Settle(30 * time.Second)
		for _, c := range cs {
			h.R.Checks++
			listed := c.loc.Lists(0, c.serial)
			v := errStr(c.hs.Err)
			if (listed && v != "revoked") || (!listed && v != "accept") {
				h.Violation("C13.verdict", "first-use-download-spans-a-tick", "phase 1b': %s on a location whose first-use download (30 s, healthy origin) was in flight when a refresh cycle began returned %s", c.class, v)
			}
		}
	}
	// ---------------------------------------------------------------- phase 1c: a background first load is overtaken by a handshake
	// The first handshake finds the origin down: the entry exists but is not loaded. The origin recovers; the next tick
	// starts loading the entry in the background and is served slowly; handshakes arriving meanwhile load it themselves.
	{
		l7 := w.NewLocation(LocOpts{Name: "L7", URL: "http://crl7.sim/g.crl", Issuer: w.A, NVers: 1, Extra: Pick(tp, 2, 30), Width: 14, Base: 7})
		n0 := nodes[0]
		l7.State = oDown
		s0, _ := mkcert(l7, "never")
		h.Handshake(n0, "L7/down", w.ChainFor(l7.Issuer.Issue(EEOpts{Serial: s0, CDP: []string{l7.URL}}), l7.Issuer))
		l7.State, l7.Fetches, l7.SlowFirst = oGood, 0, Pick(tp, 3*time.Second, 3*time.Second, 0)
		// let the next tick reach its (slow) download of L7
		h.S.Run(func(v schedView) bool { return l7.Fetches > 0 }, h.S.Now()+11*time.Minute)
		overtaken := l7.Fetches > 0
		cs = nil
		for i := 0; i < 2+nclients/2; i++ {
			cs = append(cs, spawn(n0, l7, Pick(tp, "common", "never"), nil))
		}
		waitAll(cs)
		h.Settle(30 * time.Second)
		// and the location keeps answering afterwards (nobody left a lock behind)
		cs = append(cs, spawn(n0, l7, "common", nil), spawn(n0, l7, "never", nil))
		waitAll(cs[len(cs)-2:])
		if overtaken {
			h.Probe("background-first-load-overtaken")
		}
		for _, c := range cs {
			h.R.Checks++
			listed := c.loc.Lists(0, c.serial)
			v := errStr(c.hs.Err)
			if strict && ((listed && v != "revoked") || (!listed && v != "accept")) {
				h.Violation("C13.verdict", "first-use-overtakes-background-load", "phase 1c: %s on a location whose background first load was overtaken by a handshake returned %s", c.class, v)
			}
		}
	}
	// ---------------------------------------------------------------- phase 1d: concurrent first use, the first download fails
	// Two to four handshakes meet a new location at once; whoever downloads first is refused through all its retries,
	// the next one is served. A handshake whose OWN download was delivered (or that found the list loaded) answers from
	// the list; only a handshake whose own download failed may answer "nothing loaded".
	if fetch != "fetch_background" {
		l8 := w.NewLocation(LocOpts{Name: "L8", URL: "http://crl8.sim/h.crl", Issuer: w.A, NVers: 1, Extra: 2, Width: 15, Base: 8})
		l8.FailFirst = 5 // one load = five attempts
		n0 := nodes[0]
		cs = nil
		for i := 0; i < 2+tp.Int(3); i++ {
			cs = append(cs, spawn(n0, l8, Pick(tp, "common", "never", "common"), nil))
		}
		waitAll(cs)
		h.Settle(30 * time.Second)
		for _, c := range cs {
			h.R.Checks++
			ownOK, ownFailed := false, false
			for _, x := range h.Net.Hits {
				if x.URL == l8.URL && x.Task == c.hs.Task.Key {
					if x.D.Intact {
						ownOK = true
					} else {
						ownFailed = true
					}
				}
			}
			listed := l8.Lists(0, c.serial)
			v := errStr(c.hs.Err)
			exact := (listed && v == "revoked") || (!listed && v == "accept")
			unloaded := (strict && strings.HasPrefix(v, "error(")) || (!strict && v == "accept")
			if !exact && !(ownFailed && !ownOK && unloaded) {
				h.Violation("C13.verdict", "concurrent-first-use:failed-load-of-another-handshake-decides", "phase 1d: %s (listed=%v) returned %s although its own download of the list was %s: no sequential order of the handshakes gives that verdict", c.class, listed, v, map[bool]string{true: "delivered", false: "not needed (somebody else had loaded the list)"}[ownOK])
			}
			if ownOK {
				h.Probe("phase1d:own-download-after-anothers-failure")
			}
		}
	}
	// ---------------------------------------------------------------- phase 1e: background mode, two new locations in quick succession
	// With fetch_background a handshake only REQUESTS the load. The second new location arrives while the load requested
	// for the first one is still downloading (slowly). Both requests are served: half a minute later - long before the
	// next tick - both lists answer.
	if fetch == "fetch_background" {
		n0 := nodes[0]
		la := w.NewLocation(LocOpts{Name: "L9a", URL: "http://crl9a.sim/i.crl", Issuer: w.A, NVers: 1, Extra: 2, Width: 16, Base: 9})
		lb := w.NewLocation(LocOpts{Name: "L9b", URL: "http://crl9b.sim/j.crl", Issuer: w.A, NVers: 1, Extra: 2, Width: 17, Base: 10})
		la.SlowFirst, la.Fetches = 3*time.Second, 0
		c1 := spawn(n0, la, "never", nil)
		waitAll([]*call{c1})
		h.S.Run(func(v schedView) bool { return la.Fetches > 0 }, h.S.Now()+30*time.Second)
		c2 := spawn(n0, lb, "never", nil)
		waitAll([]*call{c2})
		h.Settle(40 * time.Second)
		for _, l := range []*Location{la, lb} {
			c := spawn(n0, l, "common", nil)
			waitAll([]*call{c})
			h.R.Checks++
			if v := errStr(c.hs.Err); v != "revoked" {
				h.Violation("C13.verdict", "background-request-dropped", "phase 1e (fetch_background): 40 s after two new distribution points were met in quick succession (the second while the first one's background load was downloading), a certificate listed by %s is answered %s: the load requested for it never ran", l.Name, v)
			}
		}
	}
	// ---------------------------------------------------------------- phase 2: refresh storm
	if strict {
		from := l1.Cur
		l1.Cur = 1
		start := h.S.steps
		cs = nil
		var extra []*Task
		n0 := nodes[0]
		repo := n0.Repo()
		extra = append(extra, h.S.Go(n0.Name, n0.Name+"/updatecrl", func() { repo.UpdateCRL(crlURLLoc(l3.URL), nil) }))
		// let the tick fire while clients are being started
		h.S.Run(func(v schedView) bool {
			for _, t := range v.parked {
				if t.kind == kStart && !t.client {
					return true
				}
			}
			return false
		}, h.S.Now()+11*time.Minute)
		for i := 0; i < nclients; i++ {
			cs = append(cs, spawn(n0, l1, Pick(tp, "only", "only", "common", "never"), nil))
		}
		waitAll(cs, extra...)
		h.Settle(60 * time.Second)
		var ops []porcupine.Operation
		ops = append(ops, porcupine.Operation{ClientId: 0, Input: c08op{kind: "refresh", from: from, to: 1}, Call: int64(start), Output: "", Return: int64(h.S.steps + 1)})
		for i, c := range cs {
			h.R.Checks++
			out := errStr(c.hs.Err)
			if strings.HasPrefix(out, "error(") {
				h.Violation("C13.verdict", "refresh:error", "phase 2: handshake %s returned %s while only a fault-free refresh was running", c.class, out)
				continue
			}
			ops = append(ops, porcupine.Operation{ClientId: i + 1, Input: c08op{kind: "lookup", serial: c.serial, class: c.class}, Call: int64(c.hs.Call), Output: out, Return: int64(c.hs.Ret + 1)})
		}
		res, _ := porcupine.CheckOperationsVerbose(c08Model(l1, from), ops, 20*time.Second)
		if res == porcupine.Illegal {
			h.Violation("C13.linearizable", "refresh-nonatomic", "phase 2 verdicts admit no sequential explanation: %s", c08Describe(ops))
		} else if res == porcupine.Unknown {
			h.Probe("porcupine-unknown")
		}
	}
	// ---------------------------------------------------------------- phase 3: last refresh failed verification
	if strict {
		n0 := nodes[0]
		l1.Cur, l1.Variant = 2, "stranger"
		h.Settle(10*time.Minute + 30*time.Second) // the tick fetches a list signed by an unknown key
		cs = nil
		for i := 0; i < nclients; i++ {
			cs = append(cs, spawn(n0, l1, Pick(tp, "common", "never", "only"), nil))
		}
		waitAll(cs)
		h.Settle(30 * time.Second)
		l1.Variant = ""
		for _, c := range cs {
			h.R.Checks++
			v := errStr(c.hs.Err)
			if strings.HasPrefix(v, "error(") {
				h.Violation("C13.verdict", "after-failed-verify:error", "phase 3: handshake %s returned %s (the previous list is in force, the origin serves a list that fails verification)", c.class, v)
			}
		}
		// ------------------------------------------------------------ phase 3b: ... and the refresh that ends that state
		// The origin serves the acceptable newest list again. The tick that accepts it races handshakes that still find
		// the entry in the state 'last refresh failed verification' (and retry the signer lookup with their own chain).
		h.S.Run(func(v schedView) bool {
			for _, t := range v.parked {
				if t.kind == kStart && !t.client {
					return true
				}
			}
			return false
		}, h.S.Now()+11*time.Minute)
		cs = nil
		for i := 0; i < nclients+2; i++ {
			cs = append(cs, spawn(n0, l1, Pick(tp, "common", "never", "only"), nil))
		}
		waitAll(cs)
		h.Settle(60 * time.Second)
		for _, c := range cs {
			h.R.Checks++
			v := errStr(c.hs.Err)
			if strings.HasPrefix(v, "error(") {
				h.Violation("C13.verdict", "recovery-from-failed-verify:error", "phase 3b: handshake %s returned %s while a fault-free refresh ended the 'last refresh failed verification' state", c.class, v)
			}
			if c.class == "common" && c.hs.Err == nil {
				h.Violation("C13.verdict", "recovery-from-failed-verify:listed-accepted", "phase 3b: a certificate listed in every version was accepted")
			}
		}
	}
	// ---------------------------------------------------------------- phase 4: OCSP around cache expiry
	{
		n0 := nodes[0]
		cs = nil
		resp.Status = rGood
		ocspURL := []string{resp.URL}
		// fill the cache, then let it expire while lookups are in flight
		first := spawn(n0, l2, "never", ocspURL)
		waitAll([]*call{first})
		h.Settle(29*time.Second + 900*time.Millisecond)
		for i := 0; i < nclients; i++ {
			cs = append(cs, spawn(nodes[tp.Int(len(nodes))], l2, "never", ocspURL))
		}
		h.S.pStallNum = 100
		waitAll(cs)
		h.S.pStallNum = 0
		h.Settle(5 * time.Second)
		for _, c := range cs {
			h.R.Checks++
			if v := errStr(c.hs.Err); v != "accept" {
				h.Violation("C13.verdict", "ocsp-expiry:not-accepted", "phase 4: unlisted certificate with a good OCSP answer returned %s", v)
			}
		}
	}
	// ---------------------------------------------------------------- phase 5: handshakes vs Cleanup
	{
		cs = nil
		var extra []*Task
		// two locations nobody has used yet: their first load (download, staging, activation) races the shutdown
		l5 := w.NewLocation(LocOpts{Name: "L5", URL: "http://crl5.sim/e.crl", Issuer: w.A, NVers: 1, Extra: Pick(tp, 2, 40), Width: 12, Base: 5})
		l6 := w.NewLocation(LocOpts{Name: "L6", URL: "http://crl6.sim/f.crl", Issuer: w.B, NVers: 1, Extra: 2, Width: 13, Base: 6})
		for i := 0; i < nclients; i++ {
			n := nodes[tp.Int(len(nodes))]
			cs = append(cs, spawn(n, Pick(tp, l1, l2, l5, l5, l6), Pick(tp, "common", "never"), nil))
		}
		for _, n := range nodes {
			nn := n
			extra = append(extra, h.S.Go(nn.Name, nn.Name+"/cleanup", func() { nn.V.Cleanup() }))
		}
		waitAll(cs, extra...)
		h.Settle(5 * time.Second)
		for _, c := range cs {
			h.R.Checks++
			// while shutting down any denial is legal; accepting a listed certificate is not
			if c.loc.Lists(0, c.serial) && c.hs.Err == nil && strict {
				h.Violation("C13.verdict", "shutdown:listed-accepted", "phase 5: a certificate listed in every version of %s was accepted while Cleanup ran", c.loc.Name)
			}
		}
	}
	if h.S.switches-sw0 >= 10 {
		h.R.NonTrivial = true
	}
	h.R.Sample = map[string]any{"phases": 5, "clients": nclients, "switches": h.S.switches - sw0, "backend": backend, "fetch": fetch}
}
