package verifsim

import (
	"bytes"
	"fmt"
	"math/big"
	"path/filepath"
	"strings"
	"time"

	"github.com/anishathalye/porcupine"
	"github.com/gr33nbl00d/caddy-revocation-validator/core"
)

// C08 — Refresh is all-or-nothing; a failed refresh keeps the previous CRL in force.
//
// One location v1 -> v2 -> v3. Reader tasks issue strict-mode handshakes for old-only / new-only /
// common / never probes while a periodic refresh runs; the scheduler preempts at statement
// boundaries. Refresh outcomes come from a fault menu (origin faults, signature faults, os and
// storage faults). Oracles: (a) porcupine over client-visible verdicts, (b) exact-version probe
// pattern at quiescent points, (c) previous version still in force after a failed refresh,
// (d) a later fault-free refresh reaches the newest version within two ticks.

func init() {
	register(&PropDef{ID: "C08", Plan: func(tier string) Plan {
		n := 160
		if tier == "thorough" {
			n = 4000
		}
		return Plan{Runs: n, RaceEvery: 3, Level: "exploration", Rule: "every third run is executed under the race detector (a lookup that touches a store while it is being switched is a data race before it is a wrong answer); one run = (backend, trigger, encoding, size, 1-3 refresh rounds each with an outcome from the fault menu, 2-4 readers, preemption density) drawn from the tape; non-trivial = at least one reader verdict overlapped a refresh or one fault fired; distinct = distinct (scenario fingerprint, schedule fingerprint)"}
	}, Run: runC08})
}

var c08Outcomes = []string{"success", oDown, oHTTP500, oTrunc, oGarbage, "badsig", "unknownsigner", oReset, oEmpty, "osfault", "stfault", oWrongDoc, "critext", "storefault", "storefault", "movein-fault"}

type c08op struct {
	kind   string // "lookup" | "refresh"
	serial *big.Int
	class  string
	from   int // refresh: version in force before
	to     int // refresh: version delivered intact and acceptable (-1: must not change)
	out    string
}

func runC08(h *Harness) {
	tp := h.Tape
	backend := Pick(tp, "memory", "disk")
	trigger := Pick(tp, "tick", "tick", "updatecrl")
	pem := tp.Chance(1, 3)
	extra := Pick(tp, 0, 3, 40, 400)
	width := Pick(tp, 8, 1, 20, 16)
	rounds := 1 + tp.Int(3)
	readers := 2 + tp.Int(3)
	pre := Pick(tp, 0, 20, 200) // per mille
	faulty := tp.Chance(2, 3)
	smallWB := backend == "disk" && tp.Chance(1, 4)
	h.S.pPre = uint64(pre) * (1 << 32) / 1000
	h.Disk.SmallWB = smallWB
	sc := h.R.Scenario
	// in half of the runs, tasks that have just given up a lock are held back at a seeded subset of such sites
	h.S.pDelayDen, h.S.delayFor = Pick(tp, 0, 0, 5, 10), Pick(tp, 2*time.Second, 20*time.Second)
	h.S.pHoldDen, h.S.holdFor = Pick(tp, 0, 0, 0, 6), Pick(tp, 2*time.Second, 10*time.Second) // tasks held back while they hold a lock
	h.S.stallSteps = Pick(tp, 0, 30, 300)                                                     // half of the window delays counted in other tasks' steps
	sc["backend"], sc["trigger"], sc["pem"], sc["extra"], sc["width"], sc["rounds"], sc["readers"], sc["pre"], sc["smallwb"] = backend, trigger, pem, extra, width, rounds, readers, pre, smallWB
	if faulty {
		h.R.Config = "faulty"
	}

	w := NewWorld(h, WorldOpts{Intermediate: tp.Chance(1, 2)})
	lo := LocOpts{Name: "L1", URL: "http://crl.sim/a.crl", Issuer: w.A, NVers: rounds + 4, Extra: extra, Width: width, PEM: pem, EntryExt: tp.Chance(1, 3)}
	switch meta := Pick(tp, "", "", "", "same-times", "no-number-v2", "no-number-v1", "same-number"); meta {
	case "same-times":
		lo.SameTimes = true
	case "no-number-v2":
		lo.NoNumber = 1
	case "no-number-v1":
		lo.NoNumber = 2
	case "same-number":
		lo.SameNumber = true
	}
	sc["meta"] = fmt.Sprintf("same_times=%v no_number=%d same_number=%v", lo.SameTimes, lo.NoNumber, lo.SameNumber)
	loc := w.NewLocation(lo)
	cfg := NodeCfg{Mode: "crl_only", Storage: backend, UpdateInterval: "10m", SigMode: Pick(tp, "verify", ""), CDPStrict: true}
	if trigger == "updatecrl" {
		cfg.CRLUrls = []string{loc.URL}
		tf := h.WriteFile("trusted_a.pem", CertPEM(w.A.Cert))
		cfg.TrustedSigFiles = []string{tf}
	}
	n := h.NewNode("n1", cfg)
	if err := h.Provision(n); err != nil {
		h.Violation("C08.setup", "provision-failed", "provision failed in a fault-free setup: %v", err)
		return
	}
	// every store the repository creates from now on is wrapped: store-method errors can be injected at a chosen step
	var ff *FaultyFactory
	// (only when no store exists yet: a configured URL is loaded by Provision into an unwrapped store, and the backends
	// refuse to take over from a store of another type)
	if repo := n.Repo(); repo != nil && trigger != "updatecrl" {
		ff = &FaultyFactory{Inner: repo.Factory}
		h.Call(n, "wrap-factory", func() { repo.Factory = ff })
	}
	var cdpFor []string // nil: the location's URL as CDP
	if trigger == "updatecrl" {
		cdpFor = []string{} // the configured CRL is the only entry; certificates carry no CDP
	}
	// first load (fault free)
	hs := h.Handshake(n, "first", w.ChainFor(loc.Cert(loc.Never[0], cdpFor...), w.A))
	if hs.Err != nil {
		h.Violation("C08.setup", "first-load-denied", "fault-free first load: strict handshake for an unlisted certificate was denied: %v", hs.Err)
		return
	}
	h.Quiesce() // the updater's start-up run must be over: each round has exactly one refresh in flight
	inForce := 0
	if p := loc.Pattern(n); p != "v1" {
		h.Violation("C08.b-pattern", "after-first-load", "after the first load the probe pattern is %s, expected v1", p)
		return
	}
	var history []string
	stepFaultFired := false
	for r := 0; r < rounds; r++ {
		stepFaultFired = false
		outcome := "success"
		if faulty {
			outcome = c08Outcomes[tp.Int(len(c08Outcomes))]
		}
		next := inForce + 1
		target := -1 // version that may come into force
		loc.Cur, loc.State, loc.CutAt = next, oGood, 0
		h.Disk.OsFault, h.Disk.StFault = nil, nil
		restore := func() {}
		switch outcome {
		case "success":
			target = next
		case "badsig":
			orig := loc.Versions[next]
			bad := *orig
			bad.BadSig = true
			bad.Build()
			loc.Versions[next] = &bad
			restore = func() { loc.Versions[next] = orig }
		case "unknownsigner":
			orig := loc.Versions[next]
			bad := *orig
			bad.Signer, bad.SignerKey = w.X, nil
			bad.Build()
			loc.Versions[next] = &bad
			restore = func() { loc.Versions[next] = orig }
		case "critext":
			orig := loc.Versions[next]
			bad := *orig
			bad.CritUnknown = true
			bad.Build()
			loc.Versions[next] = &bad
			restore = func() { loc.Versions[next] = orig }
		case "osfault":
			base := len(h.Disk.OsLog)
			k := 1 + tp.Int(8)
			kind := Pick(tp, ErrIO, ErrNoSpc, ErrAcces)
			h.Disk.OsFault = func(nn int, op string, paths []string, node string) error {
				if nn-base == k {
					return kind
				}
				return nil
			}
			target = next // the fault may or may not hit a step that matters
		case "movein-fault":
			// (disk) every attempt of this round to move a staged database into place fails; moving the previous
			// database back works: the refresh fails at its very last step and the previous list stays in force
			if backend == "disk" {
				aside := map[string]bool{}
				h.Disk.OsFault = func(nn int, op string, paths []string, node string) error {
					if op != "rename" || len(paths) != 2 {
						return nil
					}
					src, dst := isTmpName(filepath.Base(paths[0])), isTmpName(filepath.Base(paths[1]))
					switch {
					case !src && dst:
						aside[paths[1]] = true
					case src && !dst && !aside[paths[0]]:
						return ErrIO
					}
					return nil
				}
			} else {
				target = next
			}
		case "storefault":
			// one store method of the STAGING store fails once (a transient error) at a chosen step; the refresh may fail
			// (previous list kept) or, if the failing call is retried or harmless, succeed — never a partial list
			target = next
			if ff != nil {
				// ("Update" = the switch of the live store to the staged list fails before it had any effect)
				method := Pick(tp, "InsertRevokedCert", "InsertRevokedCert", "InsertRevokedCert", "CreateStore", "StartUpdateCrl", "UpdateExtendedMetaInfo", "UpdateSignatureCertificate", "UpdateCRLLocations", "Update", "Update")
				k := 1 + tp.Int(4+extra)
				if method != "InsertRevokedCert" {
					k = 1
				}
				seen := 0
				ff.SetPlan(func(m string, temporary bool) error {
					if temporary == (m == "Update") || m != method {
						return nil
					}
					seen++
					if seen == k {
						stepFaultFired = true
						return ErrIO
					}
					return nil
				})
				sc["storefault"] = fmt.Sprintf("%s#%d", method, k)
				restore = func() { ff.SetPlan(nil) }
			}
		case "stfault":
			target = next
			if backend == "disk" {
				// a write error of the staging store at a chosen step: either the k-th storage operation of the refresh,
				// or the write issued by a particular store method (the property's "staging-store create/insert error at step k")
				step := Pick(tp, "op-k", "UpdateSignatureCertificate", "InsertRevokedCert", "UpdateExtendedMetaInfo", "StartUpdateCrl", "UpdateCRLLocations")
				base := int(h.Disk.StOps())
				k := 1 + tp.Int(6+extra)
				nth := 1 + tp.Int(3)
				seen := 0
				stepFaultFired = false
				h.Disk.StFault = func(nn int, op, file string, size int) (error, int) {
					if op != "write" && op != "create" && op != "sync" {
						return nil, 0
					}
					if step == "op-k" {
						if nn-base == k {
							return ErrIO, 0
						}
						return nil, 0
					}
					if op == "write" && StackHas("LevelDbStore)."+step) && StackHas("updateCrlEntry") {
						seen++
						if seen == nth || step != "InsertRevokedCert" {
							stepFaultFired = true
							return ErrIO, 0
						}
					}
					return nil, 0
				}
				sc["stfault_step"] = step
			}
		default:
			loc.State = outcome
			if outcome == oTrunc || outcome == oReset {
				b := loc.Versions[next].Bytes
				loc.CutAt = 1 + tp.Int(len(b)-1)
				// a PEM document cut inside its END line still carries the complete DER content: the validator may
				// accept it (only a clean EOF; a reset makes the download fail)
				if i := bytes.Index(b, []byte("-----END")); i >= 0 && loc.CutAt >= i && outcome == oTrunc {
					target = next
				}
			}
		}
		history = append(history, outcome)
		// start the refresh
		var ops []porcupine.Operation
		startStep := h.S.steps
		var refreshTask *Task
		var updErr error
		if trigger == "updatecrl" {
			repo := n.Repo()
			refreshTask = h.S.Go(n.Name, n.Name+"/updatecrl", func() {
				updErr = repo.UpdateCRL(crlURLLoc(loc.URL), nil)
			})
		} else {
			// let time pass until the tick has spawned the refresh goroutine
			err := h.S.Run(func(v schedView) bool {
				for _, t := range v.parked {
					if strings.Contains(t.Key, ">CRLRevocationChecker.updateCRLs") || strings.Contains(t.Key, ">updateCRLs") || t.kind == kStart && !t.client {
						return true
					}
				}
				return false
			}, h.S.Now()+n.Interval+time.Minute)
			h.handleRunErr(err)
		}
		// readers, concurrent with the refresh
		type rd struct {
			hs    []*HS
			class []string
			ser   []*big.Int
		}
		var tasks []*Task
		rds := make([]*rd, readers)
		classes := []string{"old", "new", "common", "never"}
		for i := 0; i < readers; i++ {
			r0 := &rd{}
			rds[i] = r0
			nlook := 2 + tp.Int(3)
			var sers []*big.Int
			for j := 0; j < nlook; j++ {
				c := classes[tp.Int(len(classes))]
				var s *big.Int
				switch c {
				case "old":
					s = loc.OnlyV[inForce]
				case "new":
					s = loc.OnlyV[next]
				case "common":
					s = loc.Common
				default:
					s = loc.Never[tp.Int(len(loc.Never))]
				}
				r0.class = append(r0.class, c)
				sers = append(sers, s)
			}
			r0.ser = sers
			r0.hs = make([]*HS, nlook)
			idx := i
			t := h.S.Go(n.Name, fmt.Sprintf("%s/reader%d", n.Name, idx), func() {
				for j, s := range sers {
					cert := loc.Cert(s, cdpFor...)
					x := &HS{Label: r0.class[j], Cert: cert}
					x.Call = h.S.steps
					x.Err = n.V.VerifyClientCertificate(nil, w.ChainFor(cert, w.A))
					x.Ret = h.S.steps
					x.Done = true
					r0.hs[j] = x
				}
			})
			tasks = append(tasks, t)
		}
		if refreshTask != nil {
			tasks = append(tasks, refreshTask)
		}
		h.Wait(tasks...)
		h.Settle(60 * time.Second) // retries of loaders and of the directory swap fit in here
		endStep := h.S.steps + 1
		_ = updErr
		// (a) linearizability of the verdicts of this round
		ops = append(ops, porcupine.Operation{ClientId: 0, Input: c08op{kind: "refresh", from: inForce, to: target}, Call: int64(startStep), Output: "", Return: int64(endStep)})
		overlap := false
		for i, r0 := range rds {
			for j, x := range r0.hs {
				if x == nil {
					continue
				}
				h.R.Checks++
				out := errStr(x.Err)
				if strings.HasPrefix(out, "error(") {
					h.Probe("lookup-error-during-refresh")
					if outcome == "success" {
						// nothing failed in this round: a lookup that is not answered from the old or the new list met
						// the store in a state between the two
						h.Violation("C08.a-linearizable", "lookup-error-during-clean-refresh", "round %d: while a fault-free refresh v%d->v%d was running, the lookup of a %s serial returned %s instead of an answer from one of the two lists", r+1, inForce+1, next+1, r0.class[j], out)
					}
					continue // fail closed: no information about which list answered
				}
				if x.Call > startStep {
					overlap = true
				}
				ops = append(ops, porcupine.Operation{ClientId: i + 1, Input: c08op{kind: "lookup", serial: r0.ser[j], class: r0.class[j]}, Call: int64(x.Call), Output: out, Return: int64(x.Ret + 1)})
			}
		}
		if overlap {
			h.R.NonTrivial = true
		}
		model := c08Model(loc, inForce)
		res, info := porcupine.CheckOperationsVerbose(model, ops, 20*time.Second)
		_ = info
		switch res {
		case porcupine.Illegal:
			h.Violation("C08.a-linearizable", "nonatomic", "verdicts of round %d (%s, in force v%d, delivered v%d acceptable=%v) admit no atomic explanation: %s", r+1, outcome, inForce+1, next+1, target >= 0, c08Describe(ops))
		case porcupine.Unknown:
			h.Probe("porcupine-unknown")
		}
		if stepFaultFired {
			// a store method of the staging store returned an error: this refresh failed while staging
			target = -1
			h.Probe("staging-step-fault-fired")
		}
		// (b)/(c) pattern at the quiescent point
		p := loc.Pattern(n)
		okOld, okNew := fmt.Sprintf("v%d", inForce+1), fmt.Sprintf("v%d", next+1)
		switch {
		case p == okOld:
			if outcome == "success" {
				h.Probe("clean-refresh-not-applied")
			}
		case p == okNew && target >= 0:
			inForce = next
		case p == okNew && target < 0:
			h.Violation("C08.c-failed-refresh-kept", "unacceptable-in-force", "round %d: refresh outcome %s must not change the list in force, but probes now answer from %s", r+1, outcome, p)
			inForce = next
		default:
			h.Violation("C08.c-failed-refresh-kept", "pattern:"+patClass(p), "round %d (%s): probe pattern after the refresh is %s; expected exactly %s%s", r+1, outcome, p, okOld, map[bool]string{true: " or " + okNew, false: ""}[target >= 0])
			restore()
			h.R.Sample = map[string]any{"history": history}
			return
		}
		if outcome != "success" {
			h.R.NonTrivial = true
		}
		restore()
		h.Disk.OsFault, h.Disk.StFault = nil, nil
	}
	// (d) bounded liveness once faults stop: the newest acceptable version is reached within two ticks
	final := inForce + 1
	if final >= len(loc.Versions) {
		final = len(loc.Versions) - 1
	}
	loc.Cur, loc.State = final, oGood
	if trigger == "updatecrl" {
		repo := n.Repo()
		h.Call(n, "updatecrl-final", func() { repo.UpdateCRL(crlURLLoc(loc.URL), nil) })
	} else {
		h.Settle(2*n.Interval + time.Minute)
	}
	if p := loc.Pattern(n); p != fmt.Sprintf("v%d", final+1) {
		h.Violation("C08.d-later-refresh-applies", "stuck", "after faults stopped, two refresh periods later the probes answer from %s, expected v%d (history %v)", p, final+1, history)
	}
	// (e) a download that outlives its refresh period: the cycle that fetches version a is served so slowly that the
	// next period begins (and the origin has published b by then) before it is done. Whatever the cycles do about each
	// other, the older list must not come into force after the newer one was observed, and the newest ends up in force.
	if trigger == "tick" && len(h.R.Violations) == 0 && final+2 < len(loc.Versions) && tp.Chance(1, 2) {
		a, b := final+1, final+2
		loc.Cur, loc.State, loc.SlowFirst, loc.Fetches = a, oGood, n.Interval+3*time.Minute, 0
		h.S.Run(func(v schedView) bool { return loc.Fetches > 0 }, h.S.Now()+n.Interval+time.Minute)
		if loc.Fetches > 0 {
			h.Probe("download-outlives-period")
			loc.Cur = b
			seenB := false
			var seq []string
			for i := 0; i < 8; i++ {
				h.Settle(n.Interval / 2)
				p := loc.Pattern(n)
				if len(seq) == 0 || seq[len(seq)-1] != p {
					seq = append(seq, p)
				}
				switch p {
				case fmt.Sprintf("v%d", b+1):
					seenB = true
				case fmt.Sprintf("v%d", a+1), fmt.Sprintf("v%d", final+1):
					if seenB {
						h.Violation("C08.old-after-new", "slow-older-download-lands-later", "a download of v%d that outlived its refresh period was put in force after v%d (published and fetched meanwhile) had been observed: sequence of probe patterns %v", a+1, b+1, seq)
					}
				default:
					h.Violation("C08.b-pattern", "overlapping-cycles:"+patClass(p), "while two refresh cycles overlapped the probes showed %s (sequence %v)", p, seq)
				}
				if len(h.R.Violations) > 0 {
					break
				}
			}
			if len(h.R.Violations) == 0 && !seenB {
				h.Violation("C08.d-later-refresh-applies", "stuck-after-slow-download", "four refresh periods after v%d was published the probes never showed it (sequence %v)", b+1, seq)
			}
			sc["overlap_seq"] = seq
		}
	}
	h.R.Sample = map[string]any{"history": history, "backend": backend, "trigger": trigger, "readers": readers}
	h.Cleanup(n)
}

func uniqStr(s []string) []string {
	seen := map[string]bool{}
	var out []string
	for _, x := range s {
		if !seen[x] {
			seen[x] = true
			out = append(out, x)
		}
	}
	return out
}

func patClass(p string) string {
	if i := strings.Index(p, ":"); i >= 0 {
		return p[:i]
	}
	return p
}

func outcomeClass(o string) string { return o }

func c08Describe(ops []porcupine.Operation) string {
	var sb strings.Builder
	for _, o := range ops {
		in := o.Input.(c08op)
		if in.kind == "refresh" {
			fmt.Fprintf(&sb, "[refresh v%d->v%d @%d..%d] ", in.from+1, in.to+1, o.Call, o.Return)
		} else {
			fmt.Fprintf(&sb, "[c%d %s=%v @%d..%d] ", o.ClientId, in.class, o.Output, o.Call, o.Return)
		}
	}
	return sb.String()
}

// c08Model: state = index of the version in force. refresh may move the state to in.to when
// in.to >= 0, or leave it; lookup(serial) must answer according to the state.
func c08Model(loc *Location, from int) porcupine.Model {
	nm := porcupine.NondeterministicModel{
		Init: func() []interface{} { return []interface{}{from} },
		Step: func(state, input, output interface{}) []interface{} {
			st := state.(int)
			in := input.(c08op)
			if in.kind == "refresh" {
				if in.to >= 0 && in.to != st {
					return []interface{}{st, in.to}
				}
				return []interface{}{st}
			}
			want := "accept"
			if loc.Lists(st, in.serial) {
				want = "revoked"
			}
			if output.(string) == want {
				return []interface{}{st}
			}
			return nil
		},
		Equal: func(a, b interface{}) bool { return a.(int) == b.(int) },
	}
	return nm.ToModel()
}

func crlURLLoc(url string) *core.CRLLocations { return &core.CRLLocations{CRLUrl: url} }
