//go:build !race

package verifsim

const raceBuild = false

func raceDisable() {}
func raceEnable()  {}
