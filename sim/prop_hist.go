package verifsim

import "strings"

// C01, C10, C11 are decided on the shared CRL history explorer (crlhist.go); each check owns the
// oracles of its property and biases the generator towards the histories that matter for it.

func histPlan(tier string, rule string) Plan {
	n := 150
	if tier == "thorough" {
		n = 5000
	}
	return Plan{Runs: n, Level: "exploration", Rule: rule}
}

// histPlanAudit: the explorer's runs followed by the full-list audits (audit.go)
func histPlanAudit(tier string, rule string) Plan {
	p := histPlan(tier, rule+auditRule)
	p.Runs += auditRuns(tier) + siblingAuditRuns(tier) + crossIssuerAuditRuns(tier)
	p.Enumerated = auditRuns(tier) + siblingAuditRuns(tier) + crossIssuerAuditRuns(tier) // the audits come first and are never cut by the wall-clock budget
	return p
}

const auditRule = "; the first 8 (thorough: 48) runs are full-list audits: a 700..4500-entry (thorough: up to 17000) list is loaded (first load) and replaced (refresh) on each backend, and EVERY listed serial, every removed serial and the never-listed neighbour of every listed serial is probed; the next 4 (thorough: 16) are sibling-location audits: eight CRLs of one issuer at locations that differ only in letter case, an encoded separator, a path parameter or the query string, configured (crl_urls) or met as distribution points in varying order, on each backend; every list the validator claims to hold must revoke its own serials; the next 2 are cross-issuer audits: two issuers whose names written out are digit-prefix relatives, every serial s of a loaded list is probed under the other issuer as s and as the serial whose name+serial text reads the same"

func histOrAudit(h *Harness, cfg histCfg, prefix string) {
	if n := auditRuns(h.Tier); h.Idx < n {
		ownPrefix = prefix
		runFullAudit(h, h.Idx)
		return
	}
	if n := auditRuns(h.Tier); h.Idx < n+siblingAuditRuns(h.Tier) {
		ownPrefix = prefix
		runSiblingAudit(h, h.Idx-n)
		return
	}
	if n := auditRuns(h.Tier) + siblingAuditRuns(h.Tier); h.Idx < n+crossIssuerAuditRuns(h.Tier) {
		ownPrefix = prefix
		runCrossIssuerAudit(h, h.Idx-n)
		return
	}
	runCRLHistoryOwned(h, cfg, prefix)
}

const histRule = "one run = a tape-drawn history (6-20 events: handshake / tick / origin change / restart / advance) over 1-2 validators and 2-3 CRL locations (two issuers with overlapping serials; sources CDP, crl_urls, crl_files; DER/PEM; serial widths 1-20 bytes; chunked delivery) with configuration (backend, mode, signature mode, fetch mode, strictness) drawn per run; every handshake verdict is checked against the versions observed in force by pure probes before and after it; non-trivial = some handshake was denied or concerned a listed serial, or an origin misbehaved; distinct = distinct (scenario, schedule) fingerprints"

func init() {
	// C01 and C11 share the audits, the concurrent-listing runs and the explorer; each owns its own oracles
	for _, id := range []string{"C01", "C11"} {
		cfg := histCfg{prop: "C01", strictBias: 30, withOCSP: true, faulty: true, histLen: 6}
		if id == "C11" {
			cfg = histCfg{prop: "C11", strictBias: 30, faulty: true, histLen: 7}
		}
		prefix := id + "."
		register(&PropDef{ID: id, Plan: func(t string) Plan {
			p := histPlanAudit(t, histRule+"; after the audits, 16 (thorough: 120) concurrent-listing runs: 4-12 handshakes at once against a refresh cycle that replaces the list, under seeded preemption, window delays and lock holds: for serials every version of the list contains (never accepted), and for certificates of another issuer with that same serial, of which no list says anything (never revoked)")
			p.Runs += concurrentListedAuditRuns(t)
			p.Enumerated += concurrentListedAuditRuns(t)
			return p
		}, Run: func(h *Harness) {
			na := auditRuns(h.Tier) + siblingAuditRuns(h.Tier) + crossIssuerAuditRuns(h.Tier)
			if h.Idx >= na && h.Idx < na+concurrentListedAuditRuns(h.Tier) {
				ownPrefix = prefix
				runConcurrentListedAudit(h, h.Idx-na)
				return
			}
			if h.Idx >= na+concurrentListedAuditRuns(h.Tier) {
				h.Idx -= concurrentListedAuditRuns(h.Tier) // the explorer's runs keep their numbering
			}
			histOrAudit(h, cfg, prefix)
		}})
	}
	register(&PropDef{ID: "C10", Plan: func(t string) Plan {
		p := histPlan(t, histRule+"; the first 48 (thorough: 400) runs are concurrent-strictness scenarios: 2-5 overlapping strict handshakes for one distribution point while its origin fails or stalls or the store cannot switch to the delivered list (8 failure kinds, the last two being a store switch that fails and a staged database that cannot be moved into place, x backend x fetch mode), then while the first good delivery is slow, under seeded preemption; 8 more runs: lenient mode, an entry that was never loaded whose empty store fails every lookup - it must not be consulted (origin unreachable), and an entry whose store could not switch to the first delivery (one I/O failure): nothing is denied for it, at once or after the updater has loaded the list")
		p.Runs += strictConcRuns(t) + lenientUnloadedRuns(t)
		p.Enumerated = strictConcRuns(t) + lenientUnloadedRuns(t) // they come first and are never cut by the wall-clock budget
		return p
	}, Run: func(h *Harness) {
		if h.Idx < strictConcRuns(h.Tier) {
			ownPrefix = "C10."
			runStrictConcurrent(h, h.Idx)
			return
		}
		if h.Idx < strictConcRuns(h.Tier)+lenientUnloadedRuns(h.Tier) {
			ownPrefix = "C10."
			runLenientUnloaded(h, h.Idx-strictConcRuns(h.Tier))
			return
		}
		runCRLHistoryOwned(h, histCfg{prop: "C10", strictBias: 60, faulty: true, histLen: 6}, "C10.")
	}})
}

func runCRLHistoryOwned(h *Harness, cfg histCfg, prefix string) {
	ownPrefix = prefix
	runCRLHistory(h, cfg)
}

var ownPrefix string

func ownsOracle(oracle string) bool {
	return ownPrefix == "" || strings.HasPrefix(oracle, ownPrefix) || strings.HasPrefix(oracle, "engine.")
}
