package verifsim

import (
	"fmt"
	"math/big"
	"time"
)

// Full-list audit (C01 and C11): the history explorer probes a handful of serials per list (first, middle, last,
// removed, never listed). A defect that loses or invents entries at particular positions of a long list — a batch
// boundary, a buffer boundary, a chunk of the streaming parser — passes between those probes. The audit loads one
// long list (first load), then a second one over it (refresh), and asks the validator, by pure probes, about EVERY
// listed serial (C01: must be revoked), every serial the refresh removed and the never-listed neighbour s+1 of every
// listed serial (C11: must not be revoked).

var auditSizes = []int{1100, 2300, 4500, 700}

func auditRuns(tier string) int {
	if tier == "thorough" {
		return 48
	}
	return 8
}

func runFullAudit(h *Harness, j int) {
	tp := h.Tape
	sc := h.R.Scenario
	backend := []string{"disk", "memory"}[j%2]
	size := auditSizes[(j/2)%len(auditSizes)]
	if j >= 8 {
		size = Pick(tp, 1100, 2300, 4500, 9000, 17000, 1025, 2049, 4097)
		h.Disk.SmallWB = tp.Chance(1, 3)
	}
	width := Pick(tp, 8, 3, 20, 13)
	sc["scenario"], sc["backend"], sc["entries"], sc["width"] = "full-audit", backend, size, width
	h.R.NonTrivial = true
	w := NewWorld(h, WorldOpts{Intermediate: tp.Chance(1, 2)})
	loc := w.NewLocation(LocOpts{Name: "L1", URL: "http://crl.sim/a.crl", Issuer: w.A, NVers: 2, Extra: size, Width: width, PEM: tp.Chance(1, 3), EntryExt: tp.Chance(1, 3)})
	loc.Chunk = Pick(tp, 0, 0, 7, 4096)
	cfg := NodeCfg{Mode: "crl_only", Storage: backend, UpdateInterval: "10m", SigMode: "verify", CDPStrict: true}
	n := h.NewNode("n1", cfg)
	if err := h.Provision(n); err != nil {
		h.Violation(ownPrefix+"setup", "provision-failed", "%v", err)
		return
	}
	hs := h.Handshake(n, "load", w.ChainFor(loc.Cert(loc.Never[0]), w.A))
	h.Quiesce()
	if hs.Err != nil {
		h.Violation(ownPrefix+"setup", "load-failed", "fault-free strict first load of a %d-entry list failed: %v", size, hs.Err)
		return
	}
	audit := func(ver int, path string) {
		listed := map[string]bool{}
		for _, e := range loc.Versions[ver].Entries {
			listed[e.Serial.String()] = true
		}
		lost, invented, superseded := 0, 0, 0
		var firstLost, firstInv string
		for pos, e := range loc.Versions[ver].Entries {
			if e.Serial.Sign() <= 0 {
				continue // crypto/x509 cannot issue a probe certificate with such a serial; its positive twin is a 'never' probe of Pattern()
			}
			r, err := h.PureProbeCert(n, loc.ProbeCert(e.Serial))
			h.R.Checks++
			if err != nil || !r {
				lost++
				if firstLost == "" {
					firstLost = fmt.Sprintf("position %d of %d (serial %s, err %v)", pos+1, len(loc.Versions[ver].Entries), e.Serial, err)
				}
			}
			nb := new(big.Int).Add(e.Serial, big.NewInt(1))
			if !listed[nb.String()] && nb.Sign() > 0 {
				r, err := h.PureProbeCert(n, loc.ProbeCert(nb))
				h.R.Checks++
				if err == nil && r {
					invented++
					if firstInv == "" {
						firstInv = fmt.Sprintf("serial %s (neighbour of position %d)", nb, pos+1)
					}
				}
			}
		}
		if ver > 0 {
			for _, e := range loc.Versions[ver-1].Entries {
				if listed[e.Serial.String()] || e.Serial.Sign() <= 0 {
					continue
				}
				r, err := h.PureProbeCert(n, loc.ProbeCert(e.Serial))
				h.R.Checks++
				if err == nil && r {
					superseded++
				}
			}
		}
		sc["audit_"+path] = fmt.Sprintf("listed=%d lost=%d invented=%d superseded-still-revoked=%d", len(listed), lost, invented, superseded)
		if lost > 0 && ownsOracle("C01.listed-accepted") {
			h.Violation("C01.listed-accepted", "full-audit:"+path+":"+backend, "full audit after the %s of a %d-entry list (%s): %d listed serial(s) are not answered 'revoked'; first: %s", path, len(listed), backend, lost, firstLost)
		}
		if invented > 0 && ownsOracle("C11.unlisted-revoked") {
			h.Violation("C11.unlisted-revoked", "full-audit:"+path+":"+backend, "full audit after the %s of a %d-entry list (%s): %d never-listed serial(s) are answered 'revoked'; first: %s", path, len(listed), backend, invented, firstInv)
		}
		if superseded > 0 && ownsOracle("C11.superseded-in-force") {
			h.Violation("C11.superseded-in-force", "full-audit:"+path+":"+backend, "full audit after the %s (%s): %d serial(s) that only the replaced list contained are still answered 'revoked'", path, backend, superseded)
		}
	}
	if p := loc.Pattern(n); p != "v1" {
		h.Violation(ownPrefix+"setup", "load-failed", "after a fault-free strict first load the probes show %s", p)
		return
	}
	audit(0, "first-load")
	loc.Cur = 1
	h.Settle(2*(10*time.Minute) + 40*time.Second)
	if p := loc.Pattern(n); p != "v2" {
		h.Probe("audit-refresh-not-applied")
		sc["refresh"] = p
	} else {
		audit(1, "refresh")
	}
	h.R.Sample = map[string]any{"scenario": "full-audit", "backend": backend, "entries": size, "first-load": sc["audit_first-load"], "refresh": sc["audit_refresh"]}
	h.Cleanup(n)
}

// Sibling-locations audit (C01, also run under C11): one validator is given SEVERAL CRLs of one issuer whose locations
// are different resources with easily conflated names (letter case of the path, an encoded separator, a path parameter,
// a query string — the way EJBCA-style CAs publish several lists under one path). Every one of them is a CRL "taken
// from a configured URL or from the certificate's own distribution points"; once the validator claims to have it
// (provisioning with the URL configured succeeded / the strict gate let a certificate naming it through), a serial
// that every version of THAT list contains must be rejected, whichever of the siblings was loaded first.
var siblingURLs = []string{
	"http://pki.sim/certdist?cmd=crl&ca=a",
	"http://pki.sim/certdist?cmd=crl&ca=b",
	"http://pki.sim/certdist",
	"http://pki.sim/CertDist?cmd=crl&ca=a",
	"http://pki.sim/crl/a.crl",
	"http://pki.sim/crl%2Fa.crl",
	"http://pki.sim/crl/a.crl;v=2",
	"http://pki.sim/crl/A.crl",
}

func siblingAuditRuns(tier string) int {
	if tier == "thorough" {
		return 16
	}
	return 4
}

func runSiblingAudit(h *Harness, j int) {
	tp := h.Tape
	sc := h.R.Scenario
	source := []string{"url", "cdp"}[j%2]
	backend := []string{"memory", "disk"}[(j/2)%2]
	sc["scenario"], sc["backend"], sc["source"] = "sibling-locations", backend, source
	h.R.NonTrivial = true
	w := NewWorld(h, WorldOpts{Intermediate: tp.Chance(1, 2)})
	// the order in which the siblings are configured / first used varies
	order := tp.Perm(len(siblingURLs))
	var locs []*Location
	for i, k := range order {
		u := siblingURLs[k]
		l := w.NewLocation(LocOpts{Name: fmt.Sprintf("S%d", k+1), URL: u, Issuer: w.A, NVers: 1, Extra: 2, Width: 10 + i, Base: uint32(k + 1)})
		if nu := normSent(u); nu != u {
			h.Net.Handle(nu, l.serve)
		}
		locs = append(locs, l)
	}
	cfg := NodeCfg{Mode: "crl_only", Storage: backend, UpdateInterval: "10m", SigMode: "verify", CDPStrict: true,
		TrustedSigFiles: []string{h.WriteFile("trust/a.pem", CertPEM(w.A.Cert))}} // configured CRLs are verified against configured signers
	if source == "url" {
		for _, l := range locs {
			cfg.CRLUrls = append(cfg.CRLUrls, l.URL)
		}
	}
	n := h.NewNode("n1", cfg)
	if err := h.Provision(n); err != nil {
		h.Violation(ownPrefix+"setup", "provision-failed:siblings", "provisioning with %d reachable, acceptable configured CRLs failed: %v", len(locs), err)
		return
	}
	h.Quiesce()
	claimed := map[*Location]bool{}
	if source == "url" {
		for _, l := range locs {
			claimed[l] = true
		}
	} else {
		for _, l := range locs {
			hs := h.Handshake(n, "use/"+l.Name, w.ChainFor(l.Cert(l.Never[0]), w.A))
			h.Quiesce()
			// (a denial is C10/C15 business; an acceptance through the strict gate is the validator's claim to hold the list)
			claimed[l] = hs.Err == nil
		}
	}
	for round := 0; round < 2; round++ {
		for _, l := range locs {
			if !claimed[l] {
				h.Probe("sibling-not-claimed")
				continue
			}
			var cdp []string
			if source == "cdp" {
				cdp = []string{l.URL}
			} else {
				cdp = []string{} // a configured list applies to certificates without distribution points as well
			}
			hs := h.Handshake(n, "listed/"+l.Name, w.ChainFor(l.Cert(l.Common, cdp...), w.A))
			h.R.Checks++
			if hs.Err == nil && ownsOracle("C01.listed-accepted") {
				how := map[string]string{"url": "configured", "cdp": "strict-gate"}[source]
				h.Violation("C01.listed-accepted", "loaded-claimed:"+how+":siblings", "the validator holds the CRL of %q (%s) and that list contains serial %s, yet the certificate was accepted; sibling locations: %d (a list loaded under a conflated name answers for another)", l.URL, how, l.Common.Text(16), len(locs))
				return
			}
			// precision: the never-listed neighbour is not revoked by a sibling's list
			hs = h.Handshake(n, "unlisted/"+l.Name, w.ChainFor(l.Cert(l.Never[0], cdp...), w.A))
			h.R.Checks++
			if isRevokedErr(hs.Err) && ownsOracle("C11.revoked-unlisted") {
				h.Violation("C11.revoked-unlisted", "revoked-unlisted:siblings", "a certificate listed by no CRL was reported revoked (location %q among %d sibling locations)", l.URL, len(locs))
				return
			}
		}
		// the same again after a refresh cycle
		h.Settle(10*time.Minute + 40*time.Second)
	}
	h.R.Sample = map[string]any{"scenario": "sibling-locations", "source": source, "backend": backend, "locations": len(locs)}
	h.Cleanup(n)
}

// Cross-issuer audit (C11, also run under C01): two issuing CAs whose names, written out, are digit-prefix relatives
// ("...O=Sim 2" and "...O=Sim 24"). A list of the second is loaded; for EVERY serial s it contains the validator is
// asked about (first issuer, s) and (first issuer, "4"+s) — the certificate whose name-and-serial text reads the same
// when the two are glued together — and about (second issuer, "4"+s). None of them is listed anywhere.
func crossIssuerAuditRuns(tier string) int { return 2 }

func runCrossIssuerAudit(h *Harness, j int) {
	tp := h.Tape
	sc := h.R.Scenario
	backend := []string{"memory", "disk"}[j%2]
	size := Pick(tp, 120, 300)
	sc["scenario"], sc["backend"], sc["entries"] = "cross-issuer", backend, size
	h.R.NonTrivial = true
	w := NewWorld(h, WorldOpts{Intermediate: tp.Chance(1, 2), DNShapeA: 7, DNShapeB: 7})
	lb := w.NewLocation(LocOpts{Name: "LB", URL: "http://crl.sim/b.crl", Issuer: w.B, NVers: 1, Extra: size, Width: Pick(tp, 8, 3, 13), Base: 1})
	cfg := NodeCfg{Mode: "crl_only", Storage: backend, UpdateInterval: "10m", SigMode: "verify", CDPStrict: true}
	n := h.NewNode("n1", cfg)
	if err := h.Provision(n); err != nil {
		h.Violation(ownPrefix+"setup", "provision-failed", "%v", err)
		return
	}
	hs := h.Handshake(n, "load", w.ChainFor(lb.Cert(lb.Never[0]), w.B))
	h.Quiesce()
	if hs.Err != nil || lb.Pattern(n) != "v1" {
		h.Violation(ownPrefix+"setup", "load-failed", "fault-free strict first load failed: %v", hs.Err)
		return
	}
	listed := map[string]bool{}
	for _, e := range lb.Versions[0].Entries {
		listed[e.Serial.String()] = true
	}
	lost, invented := 0, 0
	first := ""
	probe := func(ca *CA, s *big.Int, what string) {
		if s.Sign() <= 0 {
			return
		}
		c := ca.Issue(EEOpts{Serial: s, CDP: []string{}})
		r, err := h.PureProbeCert(n, c)
		h.R.Checks++
		if err == nil && r {
			invented++
			if first == "" {
				first = fmt.Sprintf("%s: issuer %q serial %s", what, ca.Cert.Subject.String(), s)
			}
		}
	}
	for _, e := range lb.Versions[0].Entries {
		if e.Serial.Sign() <= 0 {
			continue
		}
		if r, err := h.PureProbeCert(n, lb.ProbeCert(e.Serial)); err != nil || !r {
			lost++
		}
		h.R.Checks++
		shifted, _ := new(big.Int).SetString("4"+e.Serial.String(), 10)
		probe(w.A, e.Serial, "same serial under the other issuer")
		probe(w.A, shifted, "the other issuer's certificate whose name+serial text reads the same")
		if !listed[shifted.String()] {
			probe(w.B, shifted, "the serial with a digit put in front")
		}
	}
	sc["audit"] = fmt.Sprintf("listed=%d lost=%d invented=%d", len(listed), lost, invented)
	if lost > 0 && ownsOracle("C01.listed-accepted") {
		h.Violation("C01.listed-accepted", "cross-issuer-audit:"+backend, "%d listed serial(s) of the loaded list are not answered 'revoked'", lost)
	}
	if invented > 0 && ownsOracle("C11.unlisted-revoked") {
		h.Violation("C11.unlisted-revoked", "cross-issuer-audit:"+backend, "%d certificate(s) listed by no CRL are answered 'revoked' after loading a %d-entry list of issuer %q; first: %s", invented, len(listed), w.B.Cert.Subject.String(), first)
	}
	h.R.Sample = map[string]any{"scenario": "cross-issuer", "backend": backend, "result": sc["audit"]}
	h.Cleanup(n)
}

// Concurrent-listing audit (C01): the explorer presents certificates one at a time. Here 3-6 handshakes for serials that
// EVERY version of the location lists run at once, against each other and against a refresh cycle that replaces the
// list (and, in half of the runs, against a second cycle), under seeded preemption, window delays and lock holds. A
// listed certificate is rejected whoever else is busy with the same entry: any acceptance is a violation.
func concurrentListedAuditRuns(tier string) int {
	if tier == "thorough" {
		return 120
	}
	return 16
}

func runConcurrentListedAudit(h *Harness, j int) {
	tp := h.Tape
	sc := h.R.Scenario
	backend := []string{"memory", "disk"}[j%2]
	strict := (j/2)%2 == 0
	pre := Pick(tp, 50, 200, 400)
	h.S.pPre = uint64(pre) * (1 << 32) / 1000
	h.S.pDelayDen, h.S.delayFor = Pick(tp, 0, 5, 10), Pick(tp, 2*time.Second, 20*time.Second)
	h.S.pHoldDen, h.S.holdFor = Pick(tp, 0, 4, 8), Pick(tp, 2*time.Second, 10*time.Second)
	h.S.stallSteps = Pick(tp, 0, 30, 300)
	sc["scenario"], sc["backend"], sc["strict"], sc["pre"] = "concurrent-listed", backend, strict, pre
	h.R.NonTrivial = true
	w := NewWorld(h, WorldOpts{Intermediate: tp.Chance(1, 2)})
	loc := w.NewLocation(LocOpts{Name: "L1", URL: "http://crl.sim/a.crl", Issuer: w.A, NVers: 3, Extra: Pick(tp, 2, 40, 300), Width: 8})
	cfg := NodeCfg{Mode: "crl_only", Storage: backend, UpdateInterval: "10m", SigMode: "verify", CDPStrict: strict}
	n := h.NewNode("n1", cfg)
	if err := h.Provision(n); err != nil {
		h.Violation(ownPrefix+"setup", "provision-failed", "%v", err)
		return
	}
	hs := h.Handshake(n, "load", w.ChainFor(loc.Cert(loc.Never[0]), w.A))
	h.Quiesce()
	if hs.Err != nil || loc.Pattern(n) != "v1" {
		h.Violation(ownPrefix+"setup", "load-failed", "fault-free first load failed: %v", hs.Err)
		return
	}
	// two rounds against a refresh cycle, then six bursts with no refresh beside them (lookups against lookups)
	for round := 0; round < 8; round++ {
		if round < 2 {
			loc.Cur = round + 1
			// let the tick spawn its refresh, then start the handshakes
			h.S.Run(func(v schedView) bool {
				for _, t := range v.parked {
					if t.kind == kStart && !t.client {
						return true
					}
				}
				return false
			}, h.S.Now()+11*time.Minute)
		}
		var calls []*HS
		k := 3 + tp.Int(4)
		for i := 0; i < k; i++ {
			cdp := []string{loc.URL}
			if tp.Chance(1, 3) {
				cdp = []string{} // the list applies to certificates without distribution points as well
			}
			calls = append(calls, h.StartHandshake(n, fmt.Sprintf("listed%d.%d", round, i), w.ChainFor(w.A.Issue(EEOpts{Serial: loc.Common, CDP: cdp}), w.A)))
		}
		// among them, certificates of ANOTHER issuer that carry the very same serial: no list of their issuer exists,
		// the loaded list says nothing about them, whatever the lookups running beside them are asking for
		// (the listed certificate beside them is ONE certificate presented by several connections at once: whatever
		// handshakes for the same certificate share, a rejection is a rejection for each of them)
		var others []*HS
		same := w.ChainFor(w.A.Issue(EEOpts{Serial: loc.Common, CDP: []string{loc.URL}}), w.A)
		for i, ko := 0, 1+tp.Int(3); i < ko; i++ {
			others = append(others, h.StartHandshake(n, fmt.Sprintf("other-issuer%d.%d", round, i), w.ChainFor(w.B.Issue(EEOpts{Serial: loc.Common, CDP: []string{}}), w.B)))
			calls = append(calls, h.StartHandshake(n, fmt.Sprintf("listed%d.%d+", round, i), same))
		}
		calls = append(calls, h.StartHandshake(n, fmt.Sprintf("listed%d.same", round), same))
		var ts []*Task
		for _, c := range calls {
			ts = append(ts, c.Task)
		}
		for _, c := range others {
			ts = append(ts, c.Task)
		}
		h.Wait(ts...)
		for i, c := range others {
			h.R.Checks++
			if isRevokedErr(c.Err) && ownsOracle("C11.revoked-unlisted") {
				h.Violation("C11.revoked-unlisted", "concurrent-other-issuer:"+backend, "round %d: certificate %d of another issuer (no list of that issuer exists) carrying a serial that the loaded list of issuer A contains was reported REVOKED while %d handshakes for issuer A's certificates with that serial (rounds 1 and 2: and a refresh cycle) ran beside it (backend %s): %v", round+1, i+1, len(calls), backend, c.Err)
				return
			}
		}
		for i, c := range calls {
			h.R.Checks++
			if c.Err == nil && ownsOracle("C01.listed-accepted") {
				h.Violation("C01.listed-accepted", "concurrent:"+backend, "round %d: handshake %d of %d concurrent handshakes for a serial that every version of the loaded list contains was ACCEPTED (rounds 1 and 2 run while a refresh cycle replaces the list, rounds 3-8 are bursts of lookups; strict=%v, backend %s)", round+1, i+1, len(calls), strict, backend)
				return
			}
		}
		if round < 2 {
			h.Settle(40 * time.Second)
		}
	}
	h.R.Sample = map[string]any{"scenario": "concurrent-listed", "backend": backend, "strict": strict}
	h.Cleanup(n)
}
