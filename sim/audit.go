package verifsim

import (
	"fmt"
	"math/big"
	"time"
)

// Full-list audit (C01 and C11): the history explorer probes a handful of serials per list (first, middle, last,
// removed, never listed). A defect that loses or invents entries at particular positions of a long list — a batch
// boundary, a buffer boundary, a chunk of the streaming parser — passes between those probes. The audit loads one
// long list (first load), then a second one over it (refresh), and asks the validator, by pure probes, about EVERY
// listed serial (C01: must be revoked), every serial the refresh removed and the never-listed neighbour s+1 of every
// listed serial (C11: must not be revoked).

var auditSizes = []int{1100, 2300, 4500, 700}

func auditRuns(tier string) int {
	if tier == "thorough" {
		return 48
	}
	return 8
}

func runFullAudit(h *Harness, j int) {
	tp := h.Tape
	sc := h.R.Scenario
	backend := []string{"disk", "memory"}[j%2]
	size := auditSizes[(j/2)%len(auditSizes)]
	if j >= 8 {
		size = Pick(tp, 1100, 2300, 4500, 9000, 17000, 1025, 2049, 4097)
		h.Disk.SmallWB = tp.Chance(1, 3)
	}
	width := Pick(tp, 8, 3, 20, 13)
	sc["scenario"], sc["backend"], sc["entries"], sc["width"] = "full-audit", backend, size, width
	h.R.NonTrivial = true
	w := NewWorld(h, WorldOpts{Intermediate: tp.Chance(1, 2)})
	loc := w.NewLocation(LocOpts{Name: "L1", URL: "http://crl.sim/a.crl", Issuer: w.A, NVers: 2, Extra: size, Width: width, PEM: tp.Chance(1, 3), EntryExt: tp.Chance(1, 3)})
	loc.Chunk = Pick(tp, 0, 0, 7, 4096)
	cfg := NodeCfg{Mode: "crl_only", Storage: backend, UpdateInterval: "10m", SigMode: "verify", CDPStrict: true}
	n := h.NewNode("n1", cfg)
	if err := h.Provision(n); err != nil {
		h.Violation(ownPrefix+"setup", "provision-failed", "%v", err)
		return
	}
	hs := h.Handshake(n, "load", w.ChainFor(loc.Cert(loc.Never[0]), w.A))
	h.Quiesce()
	if hs.Err != nil {
		h.Violation(ownPrefix+"setup", "load-failed", "fault-free strict first load of a %d-entry list failed: %v", size, hs.Err)
		return
	}
	audit := func(ver int, path string) {
		listed := map[string]bool{}
		for _, e := range loc.Versions[ver].Entries {
			listed[e.Serial.String()] = true
		}
		lost, invented, superseded := 0, 0, 0
		var firstLost, firstInv string
		for pos, e := range loc.Versions[ver].Entries {
			if e.Serial.Sign() <= 0 {
				continue // crypto/x509 cannot issue a probe certificate with such a serial; its positive twin is a 'never' probe of Pattern()
			}
			r, err := h.PureProbeCert(n, loc.ProbeCert(e.Serial))
			h.R.Checks++
			if err != nil || !r {
				lost++
				if firstLost == "" {
					firstLost = fmt.Sprintf("position %d of %d (serial %s, err %v)", pos+1, len(loc.Versions[ver].Entries), e.Serial, err)
				}
			}
			nb := new(big.Int).Add(e.Serial, big.NewInt(1))
			if !listed[nb.String()] && nb.Sign() > 0 {
				r, err := h.PureProbeCert(n, loc.ProbeCert(nb))
				h.R.Checks++
				if err == nil && r {
					invented++
					if firstInv == "" {
						firstInv = fmt.Sprintf("serial %s (neighbour of position %d)", nb, pos+1)
					}
				}
			}
		}
		if ver > 0 {
			for _, e := range loc.Versions[ver-1].Entries {
				if listed[e.Serial.String()] || e.Serial.Sign() <= 0 {
					continue
				}
				r, err := h.PureProbeCert(n, loc.ProbeCert(e.Serial))
				h.R.Checks++
				if err == nil && r {
					superseded++
				}
			}
		}
		sc["audit_"+path] = fmt.Sprintf("listed=%d lost=%d invented=%d superseded-still-revoked=%d", len(listed), lost, invented, superseded)
		if lost > 0 && ownsOracle("C01.listed-accepted") {
			h.Violation("C01.listed-accepted", "full-audit:"+path+":"+backend, "full audit after the %s of a %d-entry list (%s): %d listed serial(s) are not answered 'revoked'; first: %s", path, len(listed), backend, lost, firstLost)
		}
		if invented > 0 && ownsOracle("C11.unlisted-revoked") {
			h.Violation("C11.unlisted-revoked", "full-audit:"+path+":"+backend, "full audit after the %s of a %d-entry list (%s): %d never-listed serial(s) are answered 'revoked'; first: %s", path, len(listed), backend, invented, firstInv)
		}
		if superseded > 0 && ownsOracle("C11.superseded-in-force") {
			h.Violation("C11.superseded-in-force", "full-audit:"+path+":"+backend, "full audit after the %s (%s): %d serial(s) that only the replaced list contained are still answered 'revoked'", path, backend, superseded)
		}
	}
	if p := loc.Pattern(n); p != "v1" {
		h.Violation(ownPrefix+"setup", "load-failed", "after a fault-free strict first load the probes show %s", p)
		return
	}
	audit(0, "first-load")
	loc.Cur = 1
	h.Settle(2*(10*time.Minute) + 40*time.Second)
	if p := loc.Pattern(n); p != "v2" {
		h.Probe("audit-refresh-not-applied")
		sc["refresh"] = p
	} else {
		audit(1, "refresh")
	}
	h.R.Sample = map[string]any{"scenario": "full-audit", "backend": backend, "entries": size, "first-load": sc["audit_first-load"], "refresh": sc["audit_refresh"]}
	h.Cleanup(n)
}
