package verifsim

import (
	"bytes"
	"crypto"
	"crypto/x509"
	"crypto/x509/pkix"
	"encoding/asn1"
	"math/big"
	"time"

	"golang.org/x/crypto/ocsp"
)

// ---------------------------------------------------------------------------------------------
// Simulated OCSP responders. The state is flipped by the scenario; every answer is built from
// ground truth (who signs, for which serial, which status), so oracles never parse what the code
// under test parsed.
// ---------------------------------------------------------------------------------------------

const (
	rGood    = "good"
	rRevoked = "revoked"
	rUnknown = "unknown"
)

// signer kinds
const (
	sIssuer        = "issuer"              // signed by the issuing CA itself
	sDelegated     = "delegated"           // responder cert issued by the CA with the OCSPSigning EKU, embedded
	sDelegatedNoE  = "delegated-no-eku"    // responder cert issued by the CA without the EKU, embedded
	sDelegatedAny  = "delegated-any-eku"   // responder cert issued by the CA whose EKU is anyExtendedKeyUsage only: no OCSP delegation (RFC 6960 4.2.2.2)
	sDelegatedOth  = "delegated-other-eku" // responder cert issued by the CA with clientAuth+serverAuth only
	sDelegatedMix  = "delegated-multi-eku" // responder cert issued by the CA with serverAuth AND OCSPSigning: a legitimate delegate
	sClientCert    = "client-cert"         // signed with the client's own certificate/key, embedded
	sClientBare    = "client-cert-bare"    // signed with the client's own key, nothing embedded (the client certificate is part of the verified chain)
	sStrangerEmb   = "stranger-embedded"   // self-signed stranger, certificate embedded
	sStrangerBare  = "stranger-bare"       // self-signed stranger, nothing embedded
	sSibling       = "sibling"             // CA with the issuer's name but another key
	sLookalike     = "lookalike-embedded"  // self-signed certificate copying the issuer's name AND subjectKeyIdentifier, own key, embedded
	sLookalikeBare = "lookalike-bare"      // the same, not embedded
)

type Responder struct {
	w          *World
	URL        string
	Issuer     *CA
	State      string // oGood.. transport states, or "answer"
	Status     string // rGood | rRevoked | rUnknown
	Signer     string
	RespStatus ocsp.ResponseStatus // Success unless set
	OtherSer   bool                // answer about another serial
	NextUpdate time.Duration       // 0: absent; negative: in the past
	Mutate     func(der []byte) []byte
	Slow       time.Duration // answers are delivered after this delay
	Bulk       int           // when > 0: answers carry a non-critical single extension of this many bytes (responses of CAs that
	// embed responder chains, archive cutoffs, CT data ... are several KiB; size must not change what an answer means)
	Hits       int
	delegated  *CA
	delegNoEKU *CA
	delegEKU   map[string]*CA
	lookalike  *CA
	ClientCert *x509.Certificate
	ClientKey  crypto.Signer
	Last       *OCSPAnswer
}

// OCSPAnswer is the ground truth of one delivered answer.
type OCSPAnswer struct {
	T         time.Duration
	Serial    *big.Int
	Status    string
	Signer    string
	Authentic bool // successful, signed by the issuer or an issuer-authorised responder, for the asked serial
	NextUpd   time.Duration
	Delivered bool // a body reached the client intact
	Note      string
}

func (w *World) NewResponder(url string, issuer *CA) *Responder {
	r := &Responder{w: w, URL: url, Issuer: issuer, State: "answer", Status: rGood, Signer: sIssuer}
	w.h.Net.Handle(url, r.serve)
	return r
}

func (r *Responder) deleg(eku bool) *CA {
	if eku {
		if r.delegated == nil {
			r.delegated = NewCA(r.Issuer, CAOpts{CN: "OCSP Responder", NotCA: true, KeyUsage: x509.KeyUsageDigitalSignature, EKU: []x509.ExtKeyUsage{x509.ExtKeyUsageOCSPSigning}})
		}
		return r.delegated
	}
	if r.delegNoEKU == nil {
		r.delegNoEKU = NewCA(r.Issuer, CAOpts{CN: "Not A Responder", NotCA: true, KeyUsage: x509.KeyUsageDigitalSignature})
	}
	return r.delegNoEKU
}

// Build creates the response for the given serial according to the responder's current state.
func (r *Responder) Build(serial *big.Int, now time.Time) ([]byte, *OCSPAnswer) {
	ans := &OCSPAnswer{Serial: serial, Status: r.Status, Signer: r.Signer, NextUpd: r.NextUpdate}
	if r.RespStatus != ocsp.Success {
		// error responses carry no signature
		b := []byte{0x30, 0x03, 0x0a, 0x01, byte(r.RespStatus)}
		ans.Note = "response status " + r.RespStatus.String()
		return b, ans
	}
	tmpl := ocsp.Response{SerialNumber: serial, ThisUpdate: now.Add(-time.Minute), IssuerHash: crypto.SHA1}
	if r.OtherSer {
		tmpl.SerialNumber = new(big.Int).Add(serial, big.NewInt(7))
	}
	switch r.Status {
	case rGood:
		tmpl.Status = ocsp.Good
	case rRevoked:
		tmpl.Status, tmpl.RevokedAt, tmpl.RevocationReason = ocsp.Revoked, now.Add(-time.Hour), ocsp.KeyCompromise
	default:
		tmpl.Status = ocsp.Unknown
	}
	if r.NextUpdate != 0 {
		tmpl.NextUpdate = now.Add(r.NextUpdate)
	}
	if r.Bulk > 0 {
		pad := make([]byte, r.Bulk)
		for i := range pad {
			pad[i] = byte(i*7 + 1)
		}
		tmpl.ExtraExtensions = []pkix.Extension{{Id: asn1.ObjectIdentifier{1, 3, 6, 1, 4, 1, 55555, 1, 1}, Value: pad}}
	}
	issuerCert := r.Issuer.Cert
	var respCert *x509.Certificate
	var key crypto.Signer
	authentic := true
	switch r.Signer {
	case sIssuer:
		respCert, key = r.Issuer.Cert, r.Issuer.Key
	case sDelegated:
		d := r.deleg(true)
		respCert, key, tmpl.Certificate = d.Cert, d.Key, d.Cert
	case sDelegatedNoE:
		d := r.deleg(false)
		respCert, key, tmpl.Certificate = d.Cert, d.Key, d.Cert
		authentic = false
	case sDelegatedAny, sDelegatedOth, sDelegatedMix:
		if r.delegEKU == nil {
			r.delegEKU = map[string]*CA{}
		}
		d := r.delegEKU[r.Signer]
		if d == nil {
			eku := map[string][]x509.ExtKeyUsage{
				sDelegatedAny: {x509.ExtKeyUsageAny},
				sDelegatedOth: {x509.ExtKeyUsageClientAuth, x509.ExtKeyUsageServerAuth},
				sDelegatedMix: {x509.ExtKeyUsageServerAuth, x509.ExtKeyUsageOCSPSigning},
			}[r.Signer]
			d = NewCA(r.Issuer, CAOpts{CN: "Responder " + r.Signer, NotCA: true, KeyUsage: x509.KeyUsageDigitalSignature, EKU: eku})
			r.delegEKU[r.Signer] = d
		}
		respCert, key, tmpl.Certificate = d.Cert, d.Key, d.Cert
		authentic = r.Signer == sDelegatedMix
	case sClientCert:
		respCert, key, tmpl.Certificate = r.ClientCert, r.ClientKey, r.ClientCert
		authentic = false
	case sClientBare:
		respCert, key = r.ClientCert, r.ClientKey
		authentic = false
	case sStrangerEmb:
		respCert, key, tmpl.Certificate = r.w.X.Cert, r.w.X.Key, r.w.X.Cert
		authentic = false
	case sStrangerBare:
		respCert, key = r.w.X.Cert, r.w.X.Key
		authentic = false
	case sSibling:
		respCert, key = r.w.Sib.Cert, r.w.Sib.Key
		issuerCert = r.w.Sib.Cert
		authentic = false
	case sLookalike, sLookalikeBare:
		if r.lookalike == nil {
			r.lookalike = NewCA(nil, CAOpts{CN: "x", SubjectOf: r.Issuer, SKI: r.Issuer.Cert.SubjectKeyId})
		}
		respCert, key = r.lookalike.Cert, r.lookalike.Key
		issuerCert = r.lookalike.Cert
		if r.Signer == sLookalike {
			tmpl.Certificate = r.lookalike.Cert
		}
		authentic = false
	}
	der, err := ocsp.CreateResponse(issuerCert, respCert, tmpl, key)
	if err != nil {
		panic("harness: ocsp.CreateResponse: " + err.Error())
	}
	if r.OtherSer {
		authentic = false
	}
	if r.Mutate != nil {
		der = r.Mutate(der)
		authentic = false
		ans.Note = "mutated"
	}
	ans.Authentic = authentic
	return der, ans
}

func (r *Responder) serve(hit *NetHit) Delivery {
	r.Hits++
	d := Delivery{Kind: dReply, Status: 200, CutAt: -1}
	html := []byte("<html><body>Bad Gateway</body></html>")
	now := time.Now()
	var serial *big.Int
	if req, err := ocsp.ParseRequest(hit.ReqBody); err == nil {
		serial = req.SerialNumber
	}
	ans := &OCSPAnswer{Serial: serial, Note: r.State}
	switch r.State {
	case "answer":
		if serial == nil {
			d.Status, d.Body = 400, html
			break
		}
		der, a := r.Build(serial, now)
		ans = a
		ans.Delivered = true
		d.Body, d.Doc, d.Intact = der, "ocsp:"+r.Status+"/"+r.Signer, true
		d.Delay = r.Slow
	case oDown:
		d.Kind = dRefuse
	case oHTTP500:
		d.Status, d.Body = 502, html
	case oHTTP404:
		d.Status, d.Body = 404, html
	case oGarbage:
		d.Body = []byte{0x30, 0x82, 0x01, 0x00, 0xde, 0xad, 0xbe, 0xef, 0x00, 0x11, 0x22}
	case oStall:
		d.Kind, d.Delay = dStall, 15*time.Second
	case oTrunc:
		der, _ := r.Build(serial, now)
		d.Body, d.CutAt = der, len(der)/2
	case oReset:
		der, _ := r.Build(serial, now)
		d.Body, d.CutAt, d.CutErr = der, len(der)/2, true
	case oEmpty:
		d.Body = nil
	case oWrongDoc:
		d.Body = r.Issuer.Cert.Raw
	}
	ans.T = r.w.h.S.Now()
	r.Last = ans
	d.Note = r.State
	return d
}

// ShareURL serves several responders (one per issuing CA) under ONE URL, as a PKI with a single OCSP front end does: the
// request names the issuer by the hash of its key, and the responder of that issuer answers.
func (w *World) ShareURL(url string, rs ...*Responder) {
	w.h.Net.Handle(url, func(hit *NetHit) Delivery {
		if req, err := ocsp.ParseRequest(hit.ReqBody); err == nil {
			for _, r := range rs {
				var spki struct {
					Alg       pkix.AlgorithmIdentifier
					PublicKey asn1.BitString
				}
				if _, e := asn1.Unmarshal(r.Issuer.Cert.RawSubjectPublicKeyInfo, &spki); e != nil {
					continue
				}
				hsh := req.HashAlgorithm.New()
				hsh.Write(spki.PublicKey.RightAlign())
				if bytes.Equal(hsh.Sum(nil), req.IssuerKeyHash) {
					return r.serve(hit)
				}
			}
		}
		return Delivery{Kind: dReply, Status: 400, CutAt: -1, Body: []byte("unknown issuer")}
	})
}
