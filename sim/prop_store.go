package verifsim

import (
	"bytes"
	"crypto/x509/pkix"
	"encoding/asn1"
	"errors"
	"fmt"
	"math/big"
	"os"
	"path/filepath"
	"reflect"
	"sort"
	"strings"
	"time"

	"github.com/gr33nbl00d/caddy-revocation-validator/core"
	"github.com/gr33nbl00d/caddy-revocation-validator/core/hashing"
	"github.com/gr33nbl00d/caddy-revocation-validator/crl/crlreader"
	"github.com/gr33nbl00d/caddy-revocation-validator/crl/crlstore"
	"go.uber.org/zap"
)

// ---------------------------------------------------------------------------------------------
// C18 — both storage backends implement the same abstract map (model-based, lock-step).
// C09 — a storage failure at lookup time is never reported as "not revoked".
// Both drive the stores through the public factory, as one simulator task, with the simulated
// disk underneath the LevelDB backend (numbered storage ops, fault plans, dirty restart).
// ---------------------------------------------------------------------------------------------

type storeModel struct {
	entries map[string]*pkix.RevokedCertificate // key: issuer DER hex | serial
	meta    *crlreader.CRLMetaInfo
	ext     *crlreader.ExtendedCRLMetaInfo
	signer  []byte
	locs    *core.CRLLocations
}

func newStoreModel() *storeModel { return &storeModel{entries: map[string]*pkix.RevokedCertificate{}} }

func (m *storeModel) clone() *storeModel {
	c := newStoreModel()
	for k, v := range m.entries {
		c.entries[k] = v
	}
	c.meta, c.ext, c.signer, c.locs = m.meta, m.ext, m.signer, m.locs
	return c
}

func mkey(issuer *pkix.RDNSequence, serial *big.Int) string {
	b, _ := asn1.Marshal(*issuer)
	return fmt.Sprintf("%x|%s", b, serial.String())
}

func rdn(cn string, extra ...string) *pkix.RDNSequence {
	seq := pkix.RDNSequence{
		{{Type: asn1.ObjectIdentifier{2, 5, 4, 6}, Value: "DE"}},
		{{Type: asn1.ObjectIdentifier{2, 5, 4, 3}, Value: cn}},
	}
	for _, e := range extra {
		seq = append(seq, pkix.RelativeDistinguishedNameSET{{Type: asn1.ObjectIdentifier{2, 5, 4, 10}, Value: e}})
	}
	return &seq
}

// storeIssuers: distinct names, some of them easy to conflate: "Issuer_1" vs ("Issuer","1"); names that differ in one
// UTF-8 continuation byte only (ü = C3 BC / ö = C3 B6; 国 = E5 9B BD / 國 = E5 9C 8B).
var storeIssuers = []*pkix.RDNSequence{rdn("Issuer One"), rdn("Issuer Two", "Org Ünïcode ✓"), rdn("Issuer_1"), rdn("Issuer", "1"),
	rdn("Müller Root CA"), rdn("Möller Root CA"), rdn("国 CA", "Org"), rdn("國 CA", "Org")}

// storeTwin: the issuer most easily conflated with issuer i
var storeTwin = []int{1, 0, 3, 2, 5, 4, 7, 6}

func storeSerial(tp *Tape) *big.Int {
	switch tp.Int(6) {
	case 0:
		return big.NewInt(int64(1 + tp.Int(5)))
	case 1:
		return big.NewInt(int64(100 + tp.Int(3)))
	case 2:
		b := bytes.Repeat([]byte{0x7f}, 20)
		b[19] = byte(tp.Int(4))
		return new(big.Int).SetBytes(b)
	case 3:
		return new(big.Int).Lsh(big.NewInt(int64(1+tp.Int(3))), 64)
	case 4:
		return big.NewInt(int64(tp.Int(3)) * 10) // includes 0 and neighbours 10,20
	}
	return big.NewInt(int64(11 + tp.Int(3)))
}

func storeEntry(tp *Tape, serial *big.Int) *pkix.RevokedCertificate {
	e := &pkix.RevokedCertificate{SerialNumber: serial, RevocationTime: epoch.Add(time.Duration(tp.Int(1000)) * time.Hour).UTC()}
	if tp.Chance(1, 3) {
		e.Extensions = []pkix.Extension{{Id: asn1.ObjectIdentifier{2, 5, 29, 21}, Value: []byte{0x0a, 0x01, byte(1 + tp.Int(5))}}}
		if tp.Chance(1, 2) {
			e.Extensions = append(e.Extensions, pkix.Extension{Id: asn1.ObjectIdentifier{2, 5, 29, 24}, Critical: tp.Chance(1, 2), Value: []byte{0x18, 0x0f, '2', '0', '0', '0', '0', '1', '0', '1', '0', '0', '0', '0', '0', '0', 'Z'}})
		}
	}
	return e
}

type storeObs struct {
	Meta, Ext, Signer, Locs string
	Empty                   bool
	Lookups                 []string
}

func timeStr(t time.Time) string {
	if t.IsZero() {
		return "zero"
	}
	return t.UTC().Format(time.RFC3339)
}

func entryStr(e *pkix.RevokedCertificate) string {
	if e == nil {
		return "nil"
	}
	var xs []string
	for _, x := range e.Extensions {
		xs = append(xs, fmt.Sprintf("%s/%v/%x", x.Id, x.Critical, x.Value))
	}
	return fmt.Sprintf("%s@%s[%s]", e.SerialNumber, timeStr(e.RevocationTime), strings.Join(xs, ";"))
}

func observeStore(s crlstore.CRLStore, keys [][2]any) (o storeObs) {
	if mi, err := s.GetCRLMetaInfo(); err != nil {
		o.Meta = "err"
	} else {
		o.Meta = fmt.Sprintf("%s|%s|%s", mi.Issuer.String(), timeStr(mi.ThisUpdate), timeStr(mi.NextUpdate))
	}
	if e, err := s.GetCRLExtMetaInfo(); err != nil {
		o.Ext = "err"
	} else if e.CRLNumber == nil {
		o.Ext = "nil"
	} else {
		o.Ext = e.CRLNumber.String()
	}
	if c, err := s.GetCRLSignatureCert(); err != nil {
		o.Signer = "err"
	} else {
		o.Signer = fmt.Sprintf("%x", hashing.Sum64(string(c.RawCertificate)))
	}
	if l, err := s.GetCRLLocations(); err != nil {
		o.Locs = "err"
	} else {
		o.Locs = fmt.Sprintf("%q|%s|%s", l.CRLDistributionPoints, l.CRLUrl, l.CRLFile)
	}
	o.Empty = s.IsEmpty()
	for _, k := range keys {
		st, err := s.GetCertRevocationStatus(k[0].(*pkix.RDNSequence), k[1].(*big.Int))
		switch {
		case err != nil:
			o.Lookups = append(o.Lookups, "err")
		case st.Revoked:
			o.Lookups = append(o.Lookups, "R:"+entryStr(st.CRLRevokedCertEntry))
		default:
			o.Lookups = append(o.Lookups, "-")
		}
	}
	return
}

func observeModel(m *storeModel, keys [][2]any) (o storeObs) {
	o.Meta, o.Ext, o.Signer, o.Locs = "err", "err", "err", "err"
	if m.meta != nil {
		o.Meta = fmt.Sprintf("%s|%s|%s", m.meta.Issuer.String(), timeStr(m.meta.ThisUpdate), timeStr(m.meta.NextUpdate))
	}
	if m.ext != nil {
		o.Ext = "nil"
		if m.ext.CRLNumber != nil {
			o.Ext = m.ext.CRLNumber.String()
		}
	}
	if m.signer != nil {
		o.Signer = fmt.Sprintf("%x", hashing.Sum64(string(m.signer)))
	}
	if m.locs != nil {
		o.Locs = fmt.Sprintf("%q|%s|%s", m.locs.CRLDistributionPoints, m.locs.CRLUrl, m.locs.CRLFile)
	}
	o.Empty = m.meta == nil
	for _, k := range keys {
		if e, ok := m.entries[mkey(k[0].(*pkix.RDNSequence), k[1].(*big.Int))]; ok {
			o.Lookups = append(o.Lookups, "R:"+entryStr(e))
		} else {
			o.Lookups = append(o.Lookups, "-")
		}
	}
	return
}

func diffObs(a, b storeObs, skipEmpty bool) string {
	var d []string
	keyDesc := ""
	if a.Meta != b.Meta {
		d = append(d, fmt.Sprintf("meta %s != %s", a.Meta, b.Meta))
	}
	if a.Ext != b.Ext {
		d = append(d, fmt.Sprintf("extmeta %s != %s", a.Ext, b.Ext))
	}
	if a.Signer != b.Signer {
		d = append(d, fmt.Sprintf("signer %s != %s", a.Signer, b.Signer))
	}
	if a.Locs != b.Locs {
		d = append(d, fmt.Sprintf("locations %s != %s", a.Locs, b.Locs))
	}
	if !skipEmpty && a.Empty != b.Empty {
		d = append(d, fmt.Sprintf("isEmpty %v != %v", a.Empty, b.Empty))
	}
	if !reflect.DeepEqual(a.Lookups, b.Lookups) {
		for i := range a.Lookups {
			if i < len(b.Lookups) && a.Lookups[i] != b.Lookups[i] {
				d = append(d, fmt.Sprintf("lookup#%d(%s) %s != %s", i, keyDesc, a.Lookups[i], b.Lookups[i]))
			}
		}
	}
	return strings.Join(d, "; ")
}

func diffClass(d string) string {
	var cs []string
	for _, p := range strings.Split(d, "; ") {
		w := strings.SplitN(p, " ", 2)[0]
		if i := strings.Index(w, "#"); i >= 0 {
			w = w[:i]
		}
		cs = append(cs, w)
	}
	sort.Strings(cs)
	return strings.Join(uniq(cs), ",")
}

func init() {
	register(&PropDef{ID: "C18", Plan: func(tier string) Plan {
		n := c18enum + 300
		if tier == "thorough" {
			n = c18enum + 12000
		}
		return Plan{Runs: n, Enumerated: c18enum, Exhaustive: true, Level: "exploration", Rule: "runs 0..583 enumerate every operation sequence of length 1..3 over the 8 operation kinds (values drawn from the tape), each followed by two inserts and a reopen; further runs: a tape-drawn sequence of 8-60 store operations (start, insert, ext-meta, signer, locations, lookup hit/miss, whole-store replacement with a store built by a sub-sequence, close+reopen and dirty restart for disk, optional write faults) applied in lock-step to a MapStore, a LevelDbStore (through crlstore.CreateStoreFactory, simulated disk underneath) and a reference model; after every step all getters and a fixed set of lookups are compared map = disk = model; non-trivial = the sequence contains a replacement, a reopen, a dirty restart or an injected fault; distinct = distinct operation sequences"}
	}, Run: runC18})
	register(&PropDef{ID: "C09", Plan: func(tier string) Plan {
		n := c09cells
		if tier == "thorough" {
			n = c09cells + 1500
		}
		return Plan{Runs: n, Enumerated: c09cells, Exhaustive: true, Level: "fault_enumeration", Rule: "runs 0..143 enumerate (fault kind in {db closed, read error, corrupted block, table file missing from the database directory, manifest and every table file damaged before a reopen, undecodable value, truncated value, store missing after failed swap, shutdown racing the lookup, value of wrong type, value altered inside the serial but still decodable, value of length zero}) x (listed, unlisted) x (backend) x (store level, repository level, validator level) completely (cells that do not exist for a backend are counted as skipped); further runs draw the same with random population sizes, tiny write buffers and schedules; oracle: under a fault that affects the lookup the answer is an error or 'revoked', never (not revoked, nil), and never a panic; the same lookups without the fault are exact"}
	}, Run: runC09})
}

// c18enum: all operation sequences of length 1..3 over the 8 operation kinds (8 + 64 + 512)
const c18enum = 8 + 64 + 512

func c18decode(idx int) []int {
	switch {
	case idx < 8:
		return []int{idx}
	case idx < 8+64:
		i := idx - 8
		return []int{i / 8, i % 8}
	}
	i := idx - 72
	return []int{i / 64, (i / 8) % 8, i % 8}
}

func runC18(h *Harness) {
	tp := h.Tape
	n := h.NewNode("s1", NodeCfg{})
	faulty := tp.Chance(1, 4)
	h.Disk.SmallWB = tp.Chance(1, 3)
	nops := 8 + tp.Int(52)
	var fixed []int
	if h.Idx < c18enum {
		fixed = c18decode(h.Idx)
		// after the enumerated prefix: two inserts and a reopen, so that every prefix is followed by lookups of real entries
		fixed = append(fixed, 1, 1, 6)
		nops, faulty = len(fixed), false
		h.Disk.SmallWB = h.Idx%2 == 1
		h.R.Scenario["enumerated"] = fmt.Sprint(fixed[:len(fixed)-3])
	}
	h.R.Scenario["ops"], h.R.Scenario["faulty"], h.R.Scenario["smallwb"] = nops, faulty, h.Disk.SmallWB
	if faulty {
		h.R.Config = "faulty"
	}
	var opsLog []string
	var ms, ds crlstore.CRLStore
	var model *storeModel
	var keys [][2]any
	uncertain := false // an operation returned an error under an injected fault: its effect may or may not be there
	finished := false
	h.Call(n, "ops", func() {
		logger := zap.NewNop()
		mf, _ := crlstore.CreateStoreFactory(crlstore.Map, n.WorkDir, logger)
		df, _ := crlstore.CreateStoreFactory(crlstore.LevelDB, n.WorkDir, logger)
		var err1, err2 error
		ms, err1 = mf.CreateStore("store1", false)
		ds, err2 = df.CreateStore("store1", false)
		if err1 != nil || err2 != nil {
			h.Violation("C18.setup", "create-failed", "%v %v", err1, err2)
			return
		}
		model = newStoreModel()
		curBase := n.WorkDir
		// fixed lookup set: every (issuer, serial) the generator can produce is too many; use those touched so far + neighbours
		addKey := func(i *pkix.RDNSequence, s *big.Int) {
			for _, k := range keys {
				if k[0].(*pkix.RDNSequence) == i && k[1].(*big.Int).Cmp(s) == 0 {
					return
				}
			}
			if len(keys) < 40 {
				keys = append(keys, [2]any{i, s})
			}
		}
		apply := func(name string, f func(s crlstore.CRLStore) error, mod func(m *storeModel)) {
			e1 := f(ms)
			e2 := f(ds)
			opsLog = append(opsLog, name)
			if e1 != nil {
				h.Violation("C18.op-error", "map-op-failed:"+strings.SplitN(name, "(", 2)[0], "operation %s failed on the memory backend: %v", name, e1)
			}
			if e1 == nil {
				mod(model)
			}
			if e2 != nil {
				if faulty {
					uncertain = true
					return
				}
				h.Violation("C18.op-error", "disk-op-failed:"+strings.SplitN(name, "(", 2)[0], "operation %s failed on the disk backend without an injected fault: %v", name, e2)
			}
		}
		buildSub := func(f crlstore.Factory, seq []func(s crlstore.CRLStore) error) (crlstore.CRLStore, error) {
			s, err := f.CreateStore("store1", true)
			if err != nil {
				return nil, err
			}
			for _, op := range seq {
				if err := op(s); err != nil {
					return s, err
				}
			}
			return s, nil
		}
		isEmptyReported := false
		for i := 0; i < nops && len(h.R.Violations) == softViolations; i++ {
			if faulty && tp.Chance(1, 6) {
				base := int(h.Disk.StOps())
				k := 1 + tp.Int(4)
				h.Disk.StFault = func(nn int, op, file string, size int) (error, int) {
					if nn-base == k && (op == "write" || op == "sync" || op == "create") {
						return ErrIO, tp0(size)
					}
					return nil, 0
				}
				h.R.NonTrivial = true
			}
			opKind := tp.Weighted(2, 8, 2, 2, 2, 2, 2, 1)
			if fixed != nil {
				opKind = fixed[i]
			}
			switch opKind {
			case 0:
				mi := &crlreader.CRLMetaInfo{Issuer: *storeIssuers[tp.Int(len(storeIssuers))], ThisUpdate: epoch.Add(time.Duration(tp.Int(100)) * time.Hour).UTC()}
				if tp.Chance(1, 2) {
					mi.NextUpdate = mi.ThisUpdate.Add(24 * time.Hour)
				}
				apply(fmt.Sprintf("start(%s)", mi.Issuer.String()), func(s crlstore.CRLStore) error { return s.StartUpdateCrl(mi) }, func(m *storeModel) { m.meta = mi })
			case 1:
				ii := tp.Int(len(storeIssuers))
				iss := storeIssuers[ii]
				ser := storeSerial(tp)
				e := storeEntry(tp, ser)
				addKey(iss, ser)
				addKey(storeIssuers[(tp.Int(len(storeIssuers)))], ser) // same serial under another issuer
				addKey(storeIssuers[storeTwin[ii]], ser)               // and under the most similar name
				addKey(iss, new(big.Int).Add(ser, big.NewInt(1)))
				apply(fmt.Sprintf("insert(%s,%s)", iss.String(), ser), func(s crlstore.CRLStore) error {
					return s.InsertRevokedCert(&crlreader.CRLEntry{Issuer: iss, RevokedCertificate: e})
				}, func(m *storeModel) { m.entries[mkey(iss, ser)] = e })
			case 2:
				em := &crlreader.ExtendedCRLMetaInfo{}
				if tp.Chance(2, 3) {
					em.CRLNumber = big.NewInt(int64(tp.Int(1000)))
					if tp.Chance(1, 4) {
						em.CRLNumber = new(big.Int).Lsh(big.NewInt(1), 150)
					}
				}
				apply("extmeta", func(s crlstore.CRLStore) error { return s.UpdateExtendedMetaInfo(em) }, func(m *storeModel) { m.ext = em })
			case 3:
				ca := NewCA(nil, CAOpts{CN: fmt.Sprintf("Signer %d", tp.Int(3))})
				ce := &core.CertificateChainEntry{RawCertificate: ca.Cert.Raw, Certificate: ca.Cert}
				apply("signer", func(s crlstore.CRLStore) error { return s.UpdateSignatureCertificate(ce) }, func(m *storeModel) { m.signer = ca.Cert.Raw })
			case 4:
				l := &core.CRLLocations{}
				switch tp.Int(4) {
				case 0:
					l.CRLUrl = "http://crl.sim/x.crl"
				case 1:
					l.CRLFile = "/some/file ü.crl"
				case 2:
					l.CRLDistributionPoints = []string{"http://a.sim/1", "ldap://b.sim/2"}
				}
				if l.CRLDistributionPoints == nil {
					l.CRLDistributionPoints = []string{}
				}
				apply("locations", func(s crlstore.CRLStore) error { return s.UpdateCRLLocations(l) }, func(m *storeModel) { m.locs = l })
			case 5: // whole-store replacement
				var seq []func(s crlstore.CRLStore) error
				nm := newStoreModel()
				cnt := tp.Int(6)
				mi := &crlreader.CRLMetaInfo{Issuer: *storeIssuers[0], ThisUpdate: epoch.UTC()}
				var em *crlreader.ExtendedCRLMetaInfo
				// half of the replacements are "the list in force fetched again": the same metadata (issuer, dates, number).
				// What else the new store carries - entries, signer certificate, locations - is still the new store's
				refetch := model.meta != nil && tp.Chance(1, 2)
				if refetch {
					mi, em = model.meta, model.ext
				}
				if refetch || tp.Chance(3, 4) {
					seq = append(seq, func(s crlstore.CRLStore) error { return s.StartUpdateCrl(mi) })
					nm.meta = mi
				}
				if em != nil || tp.Chance(1, 3) {
					if em == nil {
						em = &crlreader.ExtendedCRLMetaInfo{CRLNumber: big.NewInt(int64(tp.Int(1000)))}
					}
					seq = append(seq, func(s crlstore.CRLStore) error { return s.UpdateExtendedMetaInfo(em) })
					nm.ext = em
				}
				if tp.Chance(1, 2) {
					ca := NewCA(nil, CAOpts{CN: fmt.Sprintf("Replacement Signer %d", tp.Int(3))})
					ce := &core.CertificateChainEntry{RawCertificate: ca.Cert.Raw, Certificate: ca.Cert}
					seq = append(seq, func(s crlstore.CRLStore) error { return s.UpdateSignatureCertificate(ce) })
					nm.signer = ca.Cert.Raw
				}
				if tp.Chance(1, 3) {
					l := &core.CRLLocations{CRLUrl: "http://crl.sim/replacement.crl", CRLDistributionPoints: []string{}}
					seq = append(seq, func(s crlstore.CRLStore) error { return s.UpdateCRLLocations(l) })
					nm.locs = l
				}
				for j := 0; j < cnt; j++ {
					iss := storeIssuers[tp.Int(len(storeIssuers))]
					ser := storeSerial(tp)
					e := storeEntry(tp, ser)
					addKey(iss, ser)
					seq = append(seq, func(s crlstore.CRLStore) error {
						return s.InsertRevokedCert(&crlreader.CRLEntry{Issuer: iss, RevokedCertificate: e})
					})
					nm.entries[mkey(iss, ser)] = e
				}
				m2, e1 := buildSub(mf, seq)
				d2, e2 := buildSub(df, seq)
				if e1 != nil || e2 != nil {
					if !faulty {
						h.Violation("C18.op-error", "build-replacement-failed", "building the replacement store failed: %v %v", e1, e2)
					} else {
						uncertain = true
					}
					if d2 != nil {
						d2.Close()
						d2.Delete()
					}
					break
				}
				h.R.NonTrivial = true
				opsLog = append(opsLog, fmt.Sprintf("replace(%d entries, refetch=%v)", cnt, refetch))
				e1 = ms.Update(m2)
				e2 = ds.Update(d2)
				if e1 == nil {
					model = nm
				}
				if e1 != nil || e2 != nil {
					if !faulty {
						h.Violation("C18.op-error", "replace-failed", "Update failed: map %v disk %v", e1, e2)
					}
					uncertain = true
					if e2 != nil {
						// the disk store's handle is unusable after a failed swap; the comparison ends here
						return
					}
				}
			case 6: // close + reopen (disk)
				h.R.NonTrivial = true
				opsLog = append(opsLog, "reopen")
				ds.Close()
				var err error
				ds, err = df.CreateStore("store1", false)
				if err != nil {
					h.Violation("C18.op-error", "reopen-failed", "reopening the disk store failed: %v", err)
					return
				}
			case 7: // dirty restart (disk): copy the directory as it is now, continue on the copy
				h.R.NonTrivial = true
				opsLog = append(opsLog, "dirty-restart")
				img := filepath.Join(n.WorkDir, fmt.Sprintf("img%d", i))
				if err := h.Disk.Snapshot(filepath.Join(curBase, "store1"), filepath.Join(img, "store1")); err != nil {
					panic(err)
				}
				ds.Close()
				df2, _ := crlstore.CreateStoreFactory(crlstore.LevelDB, img, logger)
				var err error
				ds, err = df2.CreateStore("store1", false)
				if err != nil {
					h.Violation("C18.op-error", "dirty-restart-open-failed", "opening the copied database failed: %v", err)
					return
				}
				df = df2
				curBase = img
			}
			h.Disk.StFault = nil
			h.R.Checks++
			om, od, oo := observeStore(ms, keys), observeStore(ds, keys), observeModel(model, keys)
			if d := diffObs(om, oo, true); d != "" {
				h.Violation("C18.map-vs-model", diffClass(d), "memory backend differs from the model after %v: %s", opsLog, d)
			}
			if !uncertain {
				if d := diffObs(od, oo, true); d != "" {
					h.Violation("C18.disk-vs-model", diffClass(d), "disk backend differs from the model after %v: %s", opsLog, d)
				}
				if om.Empty != od.Empty && !isEmptyReported {
					// reported once per run; the comparison of everything else goes on (recordOnly does not end the sequence)
					isEmptyReported = true
					recordOnly(h, "C18.map-vs-disk", "isEmpty", fmt.Sprintf("IsEmpty: memory %v, disk %v after %v", om.Empty, od.Empty, opsLog))
				}
			} else {
				// relaxed: after a failed operation the disk store may or may not hold its effect, but it must
				// never return an entry that was never inserted
				for j, l := range od.Lookups {
					if strings.HasPrefix(l, "R:") && !strings.HasPrefix(om.Lookups[j], "R:") {
						h.Violation("C18.disk-vs-model", "phantom-entry-after-fault", "disk backend reports %s for a key the memory backend does not have, after %v", l, opsLog)
					}
				}
			}
		}
		finished = true
	})
	// the same stores, several readers at once: every lookup answers for ITS (issuer, serial), whoever else is reading
	if finished && !uncertain && len(h.R.Violations) == softViolations && len(keys) > 0 {
		h.S.pPre = uint64(Pick(tp, 100, 300, 600)) * (1 << 32) / 1000
		readers := 2 + tp.Int(3)
		type ans struct {
			disk, mem string
		}
		results := make([][]ans, readers)
		var ts []*Task
		for r := 0; r < readers; r++ {
			r := r
			results[r] = make([]ans, len(keys))
			ts = append(ts, h.S.Go(n.Name, fmt.Sprintf("%s/reader%d", n.Name, r), func() {
				for q := 0; q < len(keys); q++ {
					j := (q*(r+1) + r) % len(keys)
					iss, ser := keys[j][0].(*pkix.RDNSequence), keys[j][1].(*big.Int)
					one := func(st crlstore.CRLStore) string {
						x, err := st.GetCertRevocationStatus(iss, ser)
						switch {
						case err != nil:
							return "err:" + err.Error()
						case x != nil && x.Revoked:
							return "R"
						}
						return "-"
					}
					results[r][j] = ans{disk: one(ds), mem: one(ms)}
				}
			}))
		}
		h.Wait(ts...)
		h.R.NonTrivial = true
		for r := 0; r < readers && len(h.R.Violations) == softViolations; r++ {
			for j, k := range keys {
				if results[r][j].disk == "" {
					continue
				}
				h.R.Checks++
				want := "-"
				if _, ok := model.entries[mkey(k[0].(*pkix.RDNSequence), k[1].(*big.Int))]; ok {
					want = "R"
				}
				if results[r][j].disk != want {
					h.Violation("C18.disk-vs-model", "concurrent-lookup", "with %d readers at once the disk backend answered %q for (%s, %s), the model says %q (after %v)", readers, results[r][j].disk, k[0].(*pkix.RDNSequence).String(), k[1].(*big.Int), want, opsLog)
					break
				}
				if results[r][j].mem != want {
					h.Violation("C18.map-vs-model", "concurrent-lookup", "with %d readers at once the memory backend answered %q for (%s, %s), the model says %q (after %v)", readers, results[r][j].mem, k[0].(*pkix.RDNSequence).String(), k[1].(*big.Int), want, opsLog)
					break
				}
			}
		}
	}
	if ds != nil {
		h.Call(n, "close", func() { ds.Close() })
	}
	if len(opsLog) > 12 {
		opsLog = append(opsLog[:12], "...")
	}
	h.R.Sample = map[string]any{"ops": opsLog}
}

func tp0(size int) int { return size / 2 }

// softViolations counts violations recorded with recordOnly: they are reported like any other but do
// not end the run, so that exploration continues behind a finding that most runs reach.
var softViolations int

func recordOnly(h *Harness, oracle, sig, detail string) {
	h.Violation(oracle, sig, "%s", detail)
	softViolations++
}

// ------------------------------------------------------------------------------------------ C09

var c09faults = []string{"db-closed", "read-error", "corrupt-block", "undecodable-value", "truncated-value", "store-missing-after-failed-swap", "shutdown-race", "wrong-type-value", "altered-value", "empty-value", "table-file-missing", "manifest-and-tables-damaged"}

const c09cells = 12 * 2 * 2 * 3

var c09levels = []string{"store", "repository", "validator"}

func runC09(h *Harness) {
	tp := h.Tape
	idx := h.Idx
	var fault, level, backend string
	var listed bool
	npop := 5
	if idx < c09cells {
		nf := len(c09faults)
		fault = c09faults[idx%nf]
		listed = (idx/nf)%2 == 0
		backend = []string{"disk", "memory"}[(idx/(2*nf))%2]
		level = c09levels[(idx/(4*nf))%3]
	} else {
		fault = c09faults[tp.Int(len(c09faults))]
		listed = tp.Chance(1, 2)
		backend = Pick(tp, "disk", "disk", "memory")
		level = c09levels[tp.Int(3)]
		npop = Pick(tp, 1, 5, 60, 600)
		h.Disk.SmallWB = tp.Chance(1, 2)
		h.S.pPre = uint64(Pick(tp, 0, 50, 300)) * (1 << 32) / 1000
	}
	sc := h.R.Scenario
	sc["fault"], sc["listed"], sc["backend"], sc["level"], sc["pop"] = fault, listed, backend, level, npop
	h.R.Config = "faulty"
	applicable := true
	if backend == "memory" {
		switch fault {
		case "db-closed", "read-error", "corrupt-block", "store-missing-after-failed-swap", "table-file-missing":
			applicable = false
		}
	}
	if fault == "shutdown-race" && level == "store" {
		applicable = false
	}
	if fault == "store-missing-after-failed-swap" && level == "store" {
		applicable = false
	}
	if fault == "manifest-and-tables-damaged" && (level != "store" || backend != "disk") {
		applicable = false // a database that cannot be opened is the strict gate's business above the store (C10/C12)
	}
	if fault == "altered-value" && !listed {
		applicable = false // there is no record of an unlisted certificate that could be altered
	}
	if !applicable {
		h.Probe("cell-not-applicable")
		sc["skipped"] = true
		h.R.Sample = map[string]any{"cell": fmt.Sprintf("%s/%s/%s/%v", fault, backend, level, listed), "skipped": "fault does not exist for this backend/level"}
		return
	}
	h.R.NonTrivial = true
	w := NewWorld(h, WorldOpts{})
	loc := w.NewLocation(LocOpts{Name: "L1", URL: "http://crl.sim/a.crl", Issuer: w.A, NVers: 2, Extra: npop, Width: 8})
	serial := loc.Never[0]
	if listed {
		serial = loc.Common
	}
	issuerRDN := &pkix.RDNSequence{}
	if _, err := asn1.Unmarshal(w.A.Cert.RawSubject, issuerRDN); err != nil {
		panic(err)
	}
	key := issuerRDN.String() + "_" + serial.String()
	check := func(what string, revoked bool, err error, paniced any) {
		h.R.Checks++
		switch {
		case paniced != nil:
			h.Violation("C09.panic", "panic:"+fault+":"+level, "%s panicked under fault %s: %v", what, fault, paniced)
		case err == nil && !revoked:
			h.Violation("C09.fail-open", fault+":"+level+":"+backend+map[bool]string{true: ":listed", false: ":unlisted"}[listed], "%s answered (not revoked, nil) under fault %s (backend %s, certificate %s)", what, fault, backend, map[bool]string{true: "listed", false: "unlisted"}[listed])
		}
	}
	if level == "store" {
		n := h.NewNode("s1", NodeCfg{})
		h.Call(n, "store-ops", func() {
			st := crlstore.Map
			if backend == "disk" {
				st = crlstore.LevelDB
			}
			if fault == "manifest-and-tables-damaged" {
				h.Disk.SmallWB = true // many small table files, as a large list has
			}
			f, _ := crlstore.CreateStoreFactory(st, n.WorkDir, zap.NewNop())
			s, err := f.CreateStore("store1", false)
			if err != nil {
				panic(err)
			}
			populate := func(s crlstore.CRLStore) {
				s.StartUpdateCrl(&crlreader.CRLMetaInfo{Issuer: *issuerRDN, ThisUpdate: epoch})
				for _, e := range loc.Versions[0].Entries {
					s.InsertRevokedCert(&crlreader.CRLEntry{Issuer: issuerRDN, RevokedCertificate: &pkix.RevokedCertificate{SerialNumber: e.Serial, RevocationTime: e.Date}})
				}
				if fault == "manifest-and-tables-damaged" {
					for i := 0; i < 250; i++ { // (a few small tables; more would run into the database's own time-based write throttling)
						s.InsertRevokedCert(&crlreader.CRLEntry{Issuer: issuerRDN, RevokedCertificate: &pkix.RevokedCertificate{SerialNumber: big.NewInt(int64(0x7000000 + i)), RevocationTime: epoch}})
					}
				}
			}
			populate(s)
			// fault-free answers first (guards against an always-error implementation)
			st0, err0 := s.GetCertRevocationStatus(issuerRDN, serial)
			if err0 != nil || st0.Revoked != listed {
				h.Violation("C09.clean-lookup", "clean-lookup-wrong", "fault-free lookup: revoked=%v err=%v, expected revoked=%v", st0 != nil && st0.Revoked, err0, listed)
				return
			}
			if fault == "manifest-and-tables-damaged" {
				// the database is closed, every table file loses its second half and the manifest is damaged too (a
				// disk that filled up, a copy that was cut short); then the store is opened again the way the
				// repository opens it. It may refuse to open; if it opens, what it answers must not be "not revoked".
				ld := s.(*crlstore.LevelDbStore)
				ld.Db.Close()
				if s2, e := f.CreateStore(ld.Identifier, false); e == nil {
					s2.(*crlstore.LevelDbStore).Db.Close() // (journal replayed into table files)
				}
				ents, _ := os.ReadDir(ld.LevelDBPath)
				cut := 0
				for _, e := range ents {
					p := filepath.Join(ld.LevelDBPath, e.Name())
					b, _ := os.ReadFile(p)
					switch {
					case strings.HasSuffix(e.Name(), ".ldb") && len(b) > 8:
						os.WriteFile(p, b[:len(b)/2], 0600)
						cut++
					case strings.HasPrefix(e.Name(), "MANIFEST-") && len(b) > 8:
						// (every record of the manifest: what exactly the manifest holds depends on when the database's own
						// background compactions ran, and the outcome of the cell must not)
						for i := 4; i < len(b); i++ {
							b[i] ^= 0x5a
						}
						os.WriteFile(p, b, 0600)
					}
				}
				sc["tables_cut"] = cut
				s3, e := f.CreateStore(ld.Identifier, false)
				if e != nil {
					sc["answer"] = "store does not open: " + e.Error()
					h.Probe("damaged-database-refused")
					return
				}
				h.Probe("damaged-database-opened")
				s = s3
			}
			c09injectStore(h, s, f, backend, fault, key, listed)
			var rv bool
			var lerr error
			var pv any
			func() {
				defer func() { pv = recover() }()
				stt, e := s.GetCertRevocationStatus(issuerRDN, serial)
				lerr = e
				if stt != nil {
					rv = stt.Revoked
				}
			}()
			h.Disk.StReadBad = nil
			sc["answer"] = fmt.Sprintf("revoked=%v err=%v", rv, lerr != nil)
			if c09affects(fault, listed) {
				check("CRLStore.GetCertRevocationStatus", rv, lerr, pv)
			} else if pv != nil {
				check("CRLStore.GetCertRevocationStatus", rv, lerr, pv)
			}
		})
		h.R.Sample = map[string]any{"cell": fmt.Sprintf("%s/%s/%s/%v", fault, backend, level, listed), "answer": sc["answer"]}
		return
	}
	// repository / validator level
	cfg := NodeCfg{Mode: "crl_only", Storage: backend, UpdateInterval: "10m", SigMode: "verify", CDPStrict: false}
	n := h.NewNode("n1", cfg)
	if err := h.Provision(n); err != nil {
		h.Violation("C09.setup", "provision-failed", "%v", err)
		return
	}
	hs := h.Handshake(n, "load", w.ChainFor(loc.Cert(loc.Never[1]), w.A))
	h.Quiesce()
	if hs.Err != nil || loc.Pattern(n) != "v1" {
		h.Violation("C09.setup", "load-failed", "fault-free load failed: %v", hs.Err)
		return
	}
	// two more, healthy CRLs of another issuer are loaded as well: a failing store must not be out-voted by them.
	// Their URLs vary with the run so that the failing entry sits at every position of the repository's iteration.
	for j := 0; j < 2; j++ {
		ol := w.NewLocation(LocOpts{Name: fmt.Sprintf("H%d", j), URL: fmt.Sprintf("http://healthy%d.sim/%d/%d.crl", j, idx%7, idx%5), Issuer: w.B, NVers: 1, Extra: 1, Width: 9 + j, Base: uint32(4 + j)})
		if x := h.Handshake(n, "load-healthy", w.ChainFor(ol.Cert(ol.Never[0]), w.B)); x.Err != nil {
			h.Violation("C09.setup", "load-failed", "fault-free load of a second CRL failed: %v", x.Err)
			return
		}
	}
	h.Quiesce()
	repo := n.Repo()
	victimID := calcCDPIdentifier(loc.URL)
	entryStore := func() crlstore.CRLStore { return repoStoreOf(repo, victimID) }
	lookup := func() (bool, error, any) {
		var rv bool
		var lerr error
		var pv any
		if level == "repository" {
			h.Call(n, "lookup", func() {
				defer func() { pv = recover() }()
				st, e := repo.IsRevoked(probeCert(w.A, serial), nil)
				lerr = e
				if st != nil {
					rv = st.Revoked
				}
			})
		} else {
			x := h.Handshake(n, "lookup", w.ChainFor(w.A.Issue(EEOpts{Serial: serial, CDP: []string{}}), w.A))
			lerr = x.Err
			if isRevokedErr(x.Err) {
				rv, lerr = true, nil
			}
		}
		return rv, lerr, pv
	}
	rv0, err0, _ := lookup()
	if err0 != nil || rv0 != listed {
		h.Violation("C09.clean-lookup", "clean-lookup-wrong", "fault-free lookup at %s level: revoked=%v err=%v, expected revoked=%v", level, rv0, err0, listed)
		return
	}
	switch fault {
	case "shutdown-race":
		// Cleanup runs concurrently with the lookup; the scheduler decides the interleaving
		h.S.pPre = (1 << 32) / 5
		h.S.pDelayDen, h.S.delayFor = []int{0, 4, 8}[idx%3], 2*time.Second
		// several lookups at once, so that some of them are past their first steps when the shutdown passes
		const racers = 5
		rvs, lerrs, pvs := make([]bool, racers), make([]error, racers), make([]any, racers)
		var tasks []*Task
		for k := 0; k < racers; k++ {
			if k == 2 {
				tasks = append(tasks, h.S.Go(n.Name, n.Name+"/cleanup", func() { n.V.Cleanup() }))
			}
			tasks = append(tasks, h.S.Go(n.Name, fmt.Sprintf("%s/lookup%d", n.Name, k), func() {
				defer func() { pvs[k] = recover() }()
				if level == "repository" {
					st, e := repo.IsRevoked(probeCert(w.A, serial), nil)
					lerrs[k] = e
					if st != nil {
						rvs[k] = st.Revoked
					}
				} else {
					e := n.V.VerifyClientCertificate(nil, w.ChainFor(w.A.Issue(EEOpts{Serial: serial, CDP: []string{}}), w.A))
					lerrs[k] = e
					if isRevokedErr(e) {
						rvs[k], lerrs[k] = true, nil
					}
				}
			}))
		}
		h.Wait(tasks...)
		sc["answer"] = fmt.Sprintf("revoked=%v err=%v", rvs, lerrs)
		if listed {
			// an unlisted certificate answered "not revoked" is right whichever way the race went
			for k := 0; k < racers; k++ {
				check("lookup racing shutdown", rvs[k], lerrs[k], pvs[k])
			}
		}
		// and a lookup after shutdown
		rv2, err2, pv2 := lookup()
		if listed {
			check("lookup after shutdown", rv2, err2, pv2)
		} else if pv2 != nil {
			check("lookup after shutdown", rv2, err2, pv2)
		}
	case "store-missing-after-failed-swap":
		// make the directory swap of the next refresh fail at its second rename, for every CRL of the repository (which
		// of them is refreshed first is none of the cell's business): moving the previous database aside succeeds,
		// moving anything to a final name - the new database in, the previous one back - fails
		loc.Cur = 1
		base := len(h.Disk.OsLog)
		h.Disk.OsFault = func(nn int, op string, paths []string, node string) error {
			if nn > base && op == "rename" && len(paths) == 2 && !isTmpName(filepath.Base(paths[1])) {
				return ErrIO
			}
			return nil
		}
		h.Settle(10*time.Minute + 90*time.Second)
		h.Disk.OsFault = nil
		rv, lerr, pv := lookup()
		sc["answer"] = fmt.Sprintf("revoked=%v err=%v", rv, lerr != nil)
		if listed {
			check("lookup after failed swap", rv, lerr, pv)
		} else if pv != nil {
			check("lookup after failed swap", rv, lerr, pv)
		}
	default:
		s := entryStore()
		if s == nil {
			h.Violation("C09.setup", "no-store", "cannot reach the entry's store")
			return
		}
		h.Call(n, "inject", func() { c09injectStore(h, s, nil, backend, fault, key, listed) })
		rv, lerr, pv := lookup()
		h.Disk.StReadBad = nil
		sc["answer"] = fmt.Sprintf("revoked=%v err=%v", rv, lerr != nil)
		if c09affects(fault, listed) || pv != nil {
			check("lookup", rv, lerr, pv)
		}
	}
	h.R.Sample = map[string]any{"cell": fmt.Sprintf("%s/%s/%s/%v", fault, backend, level, listed), "answer": sc["answer"]}
}

// c09affects: does the fault make the status of this certificate undeterminable?
func c09affects(fault string, listed bool) bool {
	switch fault {
	case "undecodable-value", "truncated-value", "wrong-type-value", "empty-value":
		return true // the record under the certificate's own key is damaged (for an unlisted one a damaged record is planted)
	}
	return true
}

func c09injectStore(h *Harness, s crlstore.CRLStore, f crlstore.Factory, backend, fault, key string, listed bool) {
	hk := hashing.Sum64(key)
	put := func(v []byte) {
		switch st := s.(type) {
		case *crlstore.LevelDbStore:
			if err := st.Db.Put(hk, v, nil); err != nil {
				panic(err)
			}
		case *crlstore.MapStore:
			st.Map[string(hk)] = v
		}
	}
	get := func() []byte {
		switch st := s.(type) {
		case *crlstore.LevelDbStore:
			v, _ := st.Db.Get(hk, nil)
			return v
		case *crlstore.MapStore:
			return st.Map[string(hk)]
		}
		return nil
	}
	switch fault {
	case "db-closed":
		s.(*crlstore.LevelDbStore).Db.Close()
	case "read-error", "corrupt-block", "table-file-missing":
		ld := s.(*crlstore.LevelDbStore)
		// move the data into a table file: close and reopen replays the journal
		ld.Db.Close()
		// reopen through the repository's own factory, so that the database runs with whatever options the code
		// under test opens it with (not with the harness's)
		if f == nil {
			f, _ = crlstore.CreateStoreFactory(crlstore.LevelDB, ld.BasePath, zap.NewNop())
		}
		ns, err := f.CreateStore(ld.Identifier, false)
		if err != nil {
			panic(err)
		}
		ld.Db = ns.(*crlstore.LevelDbStore).Db
		if fault == "table-file-missing" {
			// the table files are gone from the directory (a lost file: a clean-up script, a restored backup without
			// them): the first lookup that needs one cannot open it
			ents, _ := os.ReadDir(ld.LevelDBPath)
			gone := 0
			for _, e := range ents {
				if strings.HasSuffix(e.Name(), ".ldb") {
					os.Remove(filepath.Join(ld.LevelDBPath, e.Name()))
					gone++
				}
			}
			if gone > 0 {
				h.Probe("table-file-missing:removed")
			}
		} else if fault == "read-error" {
			h.Disk.StReadBad = func(n int, file string, off int64, p []byte) error { return ErrIO }
		} else {
			// bit rot inside a table block: where the victim's stored key is visible in the block, its last byte is hit
			// (the record can then no longer be found by key); otherwise a byte in the middle of the block
			h.Disk.StReadBad = func(n int, file string, off int64, p []byte) error {
				if i := bytes.Index(p, hk); i >= 0 {
					p[i+len(hk)-1] ^= 0x01
					h.Probe("corrupt-block:key-hit")
				} else if len(p) >= 100 {
					// another (data or index) block: a byte in the middle; footers and the meta-index stay intact so that
					// the lookup actually reaches the damaged data
					p[len(p)/2] ^= 0x5a
				}
				return nil
			}
		}
	case "undecodable-value":
		put([]byte{0xff, 0xfe, 0x00, 0x01, 0x02})
	case "truncated-value":
		v := get()
		if len(v) < 4 {
			v = []byte{0x30, 0x20, 0x02, 0x01}
		}
		put(v[:len(v)/2])
	case "empty-value":
		put([]byte{}) // the record exists but its value was truncated to nothing
	case "wrong-type-value":
		put([]byte{0x04, 0x03, 'a', 'b', 'c'}) // a well-formed OCTET STRING where a SEQUENCE is expected
	case "altered-value":
		// bit rot inside the stored record of the listed certificate that leaves it decodable: the lowest bit of the
		// last octet of the serial number inside the value (SEQUENCE { INTEGER serial, ... })
		v := append([]byte(nil), get()...)
		var ts []tlv
		walkDER(v, 0, 0, &ts)
		hit := false
		for _, t := range ts {
			if v[t.off] == 0x02 && t.length > 0 {
				v[t.off+t.hdr+t.length-1] ^= 0x01
				hit = true
				break
			}
		}
		if !hit {
			panic("harness: stored record of a listed certificate has no INTEGER: " + fmt.Sprintf("%x", v))
		}
		h.Probe("altered-value:planted")
		put(v)
	}
}

func probeCert(ca *CA, serial *big.Int) *x509Cert {
	return &x509Cert{RawIssuer: ca.Cert.RawSubject, SerialNumber: serial}
}

var errNoStore = errors.New("no store")
