package verifsim

import (
	"bytes"
	"encoding/asn1"
	"encoding/hex"
	"fmt"
	"golang.org/x/crypto/cryptobyte"
	cbasn1 "golang.org/x/crypto/cryptobyte/asn1"
	"runtime"
	"strings"
	"syscall"
	"time"
)

// C07 — Parser totality under hostile origins. The CRL origin is the hostile party: it delivers
// every truncation of valid DER and PEM CRLs (EOF at an arbitrary instant), structure-aware edits
// (every length field rewritten to hostile forms, tag swaps, nesting), valid-but-unusual documents
// and broken PEM, on three paths with different failure containment: handshake-time first load,
// crl_files at provision, and the periodic refresh goroutine (which has no recover around it).
//
// Oracles: no panic escapes and the process does not die; every call returns (fake-time budget +
// real-time watchdog in the driver); the step that parses allocates at most 64 MiB + 64 x document
// size; after the hostile delivery a good delivery is still processed.

var c07paths = []string{"first-load", "provision-file", "refresh"}

func c07base(pem bool) *CRLSpec {
	return nil
}

type c07case struct {
	name string
	body func(valid []byte, spec *CRLSpec) []byte
}

func init() {
	register(&PropDef{ID: "C07", Plan: func(tier string) Plan {
		e := c07enumCount(tier)
		n := e + 300
		if tier == "thorough" {
			n = e + 4000
		}
		return Plan{Runs: n, Enumerated: e, Exhaustive: tier == "thorough", Level: "fault_enumeration", Rule: "enumerated runs: every truncation point (prefix length 0..len-1) of a valid DER CRL and of its PEM form, delivered on the handshake-time first-load path (all points) and on the provision-file and refresh paths (all points in thorough, every 4th in quick), a fixed list of valid-but-unusual documents, and every TLV header of the DER document x 13 structural edits (tag swaps, length +1/-1, indefinite and giant lengths, element dropped, and four giant long-form lengths up to 2^64 with the lengths of all enclosing elements adjusted so that the giant length is met deep inside an otherwise consistent document), and 30 PEM framing cases (blank lines at three positions, CR/LF forms, RFC 1421 headers, re-wrapped at 65/66/76 characters, one line, broken or missing armour, padding and NUL inside the body, two blocks, 1 MiB line) x 3 paths, and ~130 signature/hash algorithm identifiers met in the wild and their neighbours (x parameters absent/NULL) in both AlgorithmIdentifier fields, and 23 hostile Name values/structures (non-string attribute values, malformed RDNs) in the issuer field and in the AKI's authorityCertIssuer, and 16 member combinations and forms of the authorityKeyIdentifier (keyId, issuer and serial alone and combined, empty, negative, not a SEQUENCE, trailing bytes) x 3 paths (v1, v2 without crlExtensions, no revoked entries, no nextUpdate) on all three paths; further runs: tape-chosen structure-aware mutations (a TLV header's length rewritten to 0x80..0x8f forms / 2^31-1 / 2^63 / beyond the remaining bytes, tag swaps, nesting, random bytes, broken PEM armour, very long lines, hostile authorityKeyIdentifier values) on a tape-chosen path and backend; oracle: no panic or process death, every call returns, allocation of the whole step that parses (including logging and harness bookkeeping, hence the generous constant) <= 64 MiB + 64 x size, with the address space of the run capped at 8 GiB so that a giant allocation kills only that run, a later good delivery is processed; non-trivial = the delivered bytes differ from a valid CRL"}
	}, Run: runC07})
}

func c07docs(h *Harness, w *World) (der, pem *CRLSpec) {
	mk := func(p bool) *CRLSpec {
		s := &CRLSpec{Name: "hostile-base", Issuer: w.A, AutoAlg: true, ThisUpdate: epoch, NextUpdate: epoch.Add(24 * time.Hour), Number: 5, PEM: p}
		for i := 0; i < 4; i++ {
			e := CRLEntrySpec{Serial: SerialOfWidth(8, 0x21, uint32(i+1)), Date: epoch.Add(-time.Hour)}
			if i%2 == 0 {
				e.HasExts, e.ExtDER = true, reasonExt(1)
			}
			s.Entries = append(s.Entries, e)
		}
		return s.Build()
	}
	return mk(false), mk(true)
}

var c07unusual = []string{"v1", "v2-no-extensions", "no-entries", "no-nextupdate", "no-entries-no-extensions", "empty", "v3", "critical-unknown"}

const c07tlvMax = 72

// the "fit:" variants rewrite one length to a giant long form AND adjust the lengths of all enclosing elements, so
// that everything up to the rewritten header still parses cleanly and the giant length is met deep inside
var c07structVariants = []string{"tag:=31", "tag:=04", "tag:=30", "len+1", "len-1", "len:=80", "len:=847fffffff", "len:=8410000000", "drop",
	"fit:len:=888000000000000000", "fit:len:=88ffffffffffffffff", "fit:len:=89010000000000000000", "fit:len:=847fffffff"}

func c07enumCount(tier string) int {
	return c07truncCount(tier) + c07tlvMax*len(c07structVariants) + len(c07pemCases)*3 + 2*len(c07algOIDs) + 2*len(c07nameValues) + 3*len(c07akiCases)
}

// c07akiCases: which members an authorityKeyIdentifier carries, and in which form. RFC 5280 wants authorityCertIssuer
// and authorityCertSerialNumber both or neither; a hostile or sloppy origin sends any subset. Each case travels on all
// three intake paths; the extension is read before any signature is checked.
var c07akiCases = []string{"empty-seq", "keyid", "issuer-dir", "issuer-rfc822", "issuer-empty", "serial", "issuer-dir+serial", "issuer-rfc822+serial",
	"keyid+issuer-dir", "keyid+serial", "keyid+issuer-dir+serial", "keyid(empty)", "serial(empty)", "serial(negative)", "not-a-sequence", "trailing-bytes"}

func c07aki(kind string, w *World) []byte {
	var ab cryptobyte.Builder
	keyid := func(b *cryptobyte.Builder, v []byte) {
		b.AddASN1(cbasn1.Tag(0).ContextSpecific(), func(b *cryptobyte.Builder) { b.AddBytes(v) })
	}
	issuer := func(b *cryptobyte.Builder, form string) {
		b.AddASN1(cbasn1.Tag(1).ContextSpecific().Constructed(), func(b *cryptobyte.Builder) {
			switch form {
			case "dir":
				b.AddASN1(cbasn1.Tag(4).ContextSpecific().Constructed(), func(b *cryptobyte.Builder) { b.AddBytes(w.A.Cert.RawIssuer) })
			case "rfc822":
				b.AddASN1(cbasn1.Tag(1).ContextSpecific(), func(b *cryptobyte.Builder) { b.AddBytes([]byte("ca@example.sim")) })
			}
		})
	}
	serial := func(b *cryptobyte.Builder, v []byte) {
		b.AddASN1(cbasn1.Tag(2).ContextSpecific(), func(b *cryptobyte.Builder) { b.AddBytes(v) })
	}
	if kind == "not-a-sequence" {
		return []byte{0x02, 0x01, 0x05}
	}
	ab.AddASN1(cbasn1.SEQUENCE, func(b *cryptobyte.Builder) {
		for _, part := range strings.Split(strings.TrimSuffix(kind, "-bytes"), "+") {
			switch part {
			case "keyid", "trailing":
				keyid(b, w.A.Cert.SubjectKeyId)
			case "keyid(empty)":
				keyid(b, nil)
			case "issuer-dir":
				issuer(b, "dir")
			case "issuer-rfc822":
				issuer(b, "rfc822")
			case "issuer-empty":
				issuer(b, "")
			case "serial":
				serial(b, w.A.Cert.SerialNumber.Bytes())
			case "serial(empty)":
				serial(b, nil)
			case "serial(negative)":
				serial(b, []byte{0xff, 0x01})
			}
		}
	})
	out := ab.BytesOrPanic()
	if kind == "trailing-bytes" {
		out = append(out, 0x05, 0x00, 0xde, 0xad)
	}
	return out
}

// c07nameValues: what a Name can carry where a directory string is expected, and malformed Name structures. Each is
// placed in the CRL's issuer field and in the authorityCertIssuer directoryName of its authorityKeyIdentifier: both
// reach the chain matcher before any signature is checked.
var c07nameValues = []struct {
	kind string
	atv  []byte // DER of the value of the commonName attribute (nil: see kind)
}{
	{"INTEGER", []byte{0x02, 0x01, 0x05}},
	{"BIT STRING", []byte{0x03, 0x02, 0x00, 0xff}},
	{"OCTET STRING", []byte{0x04, 0x02, 0xab, 0xcd}},
	{"NULL", []byte{0x05, 0x00}},
	{"BOOLEAN", []byte{0x01, 0x01, 0xff}},
	{"SEQUENCE", []byte{0x30, 0x03, 0x02, 0x01, 0x01}},
	{"SET(empty)", []byte{0x31, 0x00}},
	{"OBJECT IDENTIFIER", []byte{0x06, 0x03, 0x55, 0x04, 0x03}},
	{"UTCTime", append([]byte{0x17, 0x0d}, "240101000000Z"...)},
	{"BMPString", []byte{0x1e, 0x04, 0x00, 0x41, 0x00, 0x42}},
	{"BMPString(odd)", []byte{0x1e, 0x03, 0x00, 0x41, 0x00}},
	{"UniversalString", []byte{0x1c, 0x04, 0x00, 0x00, 0x00, 0x41}},
	{"TeletexString", []byte{0x14, 0x02, 0x41, 0xe4}},
	{"UTF8String(invalid)", []byte{0x0c, 0x02, 0xff, 0xfe}},
	{"UTF8String(empty)", []byte{0x0c, 0x00}},
	{"PrintableString(invalid chars)", []byte{0x13, 0x02, 0x40, 0x2a}},
	{"IA5String(high bit)", []byte{0x16, 0x02, 0xc3, 0xa4}},
	{"context[0]", []byte{0xa0, 0x03, 0x0c, 0x01, 0x41}},
	{"UTF8String(5000)", append([]byte{0x0c, 0x82, 0x13, 0x88}, bytes.Repeat([]byte("A"), 5000)...)},
	{"attribute without value", nil},
	{"empty RDN", nil},
	{"empty Name", nil},
	{"RDN is a SEQUENCE", nil},
}

func c07name(i int) []byte {
	nv := c07nameValues[i]
	tlv := func(tag byte, content ...[]byte) []byte {
		var c []byte
		for _, x := range content {
			c = append(c, x...)
		}
		var b cryptobyte.Builder
		b.AddASN1(cbasn1.Tag(tag), func(b *cryptobyte.Builder) { b.AddBytes(c) })
		return b.BytesOrPanic()
	}
	oidO, oidCN := []byte{0x06, 0x03, 0x55, 0x04, 0x0a}, []byte{0x06, 0x03, 0x55, 0x04, 0x03}
	org := tlv(0x31, tlv(0x30, oidO, []byte{0x0c, 0x03, 'S', 'i', 'm'}))
	switch nv.kind {
	case "attribute without value":
		return tlv(0x30, org, tlv(0x31, tlv(0x30, oidCN)))
	case "empty RDN":
		return tlv(0x30, org, tlv(0x31))
	case "empty Name":
		return tlv(0x30)
	case "RDN is a SEQUENCE":
		return tlv(0x30, org, tlv(0x30, tlv(0x30, oidCN, []byte{0x0c, 0x01, 'x'})))
	}
	return tlv(0x30, org, tlv(0x31, tlv(0x30, oidCN, nv.atv)))
}

// c07algOIDs: signature- and hash-algorithm identifiers met in the wild (supported or not) and their neighbours. The
// outer signatureAlgorithm is not covered by the signature, so whoever answers for a CRL location chooses it freely:
// every one of them must lead to a verdict or an error, whatever table the reader looks it up in.
var c07algOIDs = func() (out []asn1.ObjectIdentifier) {
	fam := func(prefix []int, from, to int) {
		for i := from; i <= to; i++ {
			out = append(out, append(append(asn1.ObjectIdentifier(nil), prefix...), i))
		}
	}
	fam([]int{1, 2, 840, 113549, 1, 1}, 1, 20)          // PKCS#1: rsaEncryption, md2/md4/md5/sha*WithRSA, PSS, sha512-224/256
	fam([]int{1, 2, 840, 10045, 4}, 1, 3)               // ecdsa-with-SHA1 / Recommended / Specified
	fam([]int{1, 2, 840, 10045, 4, 3}, 1, 6)            // ecdsa-with-SHA2
	fam([]int{1, 3, 14, 3, 2}, 2, 29)                   // OIW: md4WithRSA, md5WithRSA, dsaWithSHA, sha1, sha1WithRSA ...
	fam([]int{1, 3, 36, 3, 3, 1}, 1, 4)                 // TeleTrusT rsaSignatureWithripemd160/128/256
	fam([]int{1, 3, 36, 3, 3, 2}, 1, 8)                 // TeleTrusT ecSign*
	fam([]int{1, 3, 36, 3, 2}, 1, 3)                    // ripemd160/128/256
	fam([]int{2, 16, 840, 1, 101, 3, 4, 3}, 1, 16)      // NIST: dsa-with-sha2, ecdsa/rsa with SHA-3
	fam([]int{2, 16, 840, 1, 101, 3, 4, 2}, 1, 12)      // NIST hashes sha2, sha3, shake
	fam([]int{1, 2, 840, 10040, 4}, 1, 3)               // DSA
	fam([]int{1, 3, 101}, 110, 113)                     // X25519, X448, Ed25519, Ed448
	fam([]int{1, 2, 643, 2, 2}, 3, 4)                   // GOST R 34.10-2001
	fam([]int{1, 2, 643, 7, 1, 1, 3}, 2, 3)             // GOST R 34.10-2012
	fam([]int{1, 2, 156, 10197, 1}, 501, 504)           // SM2 with SM3 ...
	fam([]int{1, 2, 840, 113549, 2}, 2, 5)              // md2, md4, md5
	fam([]int{1, 3, 6, 1, 4, 1, 11591, 15}, 1, 1)       // Ed25519 (GnuPG arc)
	fam([]int{1, 3, 6, 1, 4, 1, 1722, 12, 2, 1}, 5, 16) // BLAKE2b
	fam([]int{2, 999}, 1, 2)                            // example arc
	return
}()

// c07pemCases: PEM framing, enumerated (each on all three intake paths).
var c07pemCases = []string{"broken-begin", "no-end", "no-trailing-newline", "1MiB-line", "blank-lines", "non-base64-line", "only-header-and-long-line",
	"blank-after-begin", "blank-mid", "blank-before-end", "crlf", "crlf-blank-mid", "cr-only-line", "trailing-spaces", "rfc1421-headers", "blank-before-begin",
	"two-blocks", "lowercase-armour", "wrap-65", "wrap-66", "wrap-76", "single-line", "end-without-dashes", "padding-mid", "nul-in-line", "empty-body",
	"newline-only", "begin-without-newline", "tab-line", "begin-only-line"}

func c07pem(kind string, b []byte) []byte {
	begin, end := []byte("-----BEGIN X509 CRL-----\n"), []byte("-----END X509 CRL-----\n")
	bodyOf := func() []byte { // the base64 lines between the armour lines
		i := bytes.Index(b, begin) + len(begin)
		j := bytes.Index(b, end)
		return b[i:j]
	}
	raw := bytes.ReplaceAll(bodyOf(), []byte("\n"), nil)
	wrap := func(n int, nl string) []byte {
		var o []byte
		o = append(o, begin...)
		for i := 0; i < len(raw); i += n {
			e := i + n
			if e > len(raw) {
				e = len(raw)
			}
			o = append(o, raw[i:e]...)
			o = append(o, nl...)
		}
		return append(o, end...)
	}
	ins := func(at int, s string) []byte {
		return append(append(append([]byte(nil), b[:at]...), s...), b[at:]...)
	}
	firstNL := bytes.IndexByte(b, '\n') + 1
	lines := bytes.SplitAfter(b, []byte("\n"))
	midAt := 0
	for i := 0; i < len(lines)/2; i++ {
		midAt += len(lines[i])
	}
	switch kind {
	case "broken-begin":
		return bytes.Replace(b, []byte("-----BEGIN X509 CRL-----"), []byte("-----BEGIN X509 CRL----"), 1)
	case "no-end":
		return bytes.Replace(b, end, nil, 1)
	case "no-trailing-newline":
		return bytes.TrimRight(b, "\n")
	case "1MiB-line":
		return ins(firstNL, string(bytes.Repeat([]byte("QUJD"), 256<<10))+"\n")
	case "blank-lines":
		return bytes.ReplaceAll(b, []byte("\n"), []byte("\n\n"))
	case "non-base64-line":
		return ins(firstNL, "@@@@ not base64 @@@@\n")
	case "only-header-and-long-line":
		return append(append([]byte(nil), begin...), bytes.Repeat([]byte("A"), 70)...)
	case "blank-after-begin":
		return ins(firstNL, "\n")
	case "blank-mid":
		return ins(midAt, "\n")
	case "blank-before-end":
		return ins(bytes.Index(b, end), "\n")
	case "crlf":
		return bytes.ReplaceAll(b, []byte("\n"), []byte("\r\n"))
	case "crlf-blank-mid":
		c := bytes.ReplaceAll(ins(midAt, "\n"), []byte("\n"), []byte("\r\n"))
		return c
	case "cr-only-line":
		return ins(midAt, "\r")
	case "trailing-spaces":
		return bytes.ReplaceAll(b, []byte("\n"), []byte("  \n"))
	case "rfc1421-headers":
		return ins(firstNL, "Proc-Type: 4,ENCRYPTED\nDEK-Info: AES-128-CBC,00\n\n")
	case "blank-before-begin":
		return append([]byte("\n\n"), b...)
	case "two-blocks":
		return append(append([]byte(nil), b...), b...)
	case "lowercase-armour":
		return bytes.ReplaceAll(bytes.ReplaceAll(b, []byte("BEGIN X509 CRL"), []byte("begin x509 crl")), []byte("END X509 CRL"), []byte("end x509 crl"))
	case "wrap-65":
		return wrap(65, "\n")
	case "wrap-66":
		return wrap(66, "\n")
	case "wrap-76":
		return wrap(76, "\r\n")
	case "single-line":
		return wrap(len(raw), "\n")
	case "end-without-dashes":
		return bytes.Replace(b, end, []byte("END X509 CRL\n"), 1)
	case "padding-mid":
		return ins(midAt, "QQ==\n")
	case "nul-in-line":
		return ins(midAt+3, "\x00\x00")
	case "empty-body":
		return append(append([]byte(nil), begin...), end...)
	case "newline-only":
		return []byte("\n")
	case "begin-without-newline":
		return []byte("-----BEGIN X509 CRL-----")
	case "tab-line":
		return ins(midAt, "\t\n")
	case "begin-only-line":
		return append([]byte(nil), begin...)
	}
	panic("harness: unknown PEM case " + kind)
}

func c07truncCount(tier string) int {
	// lengths are fixed by the generator: DER 4-entry ECDSA CRL and its PEM form. The exact numbers are
	// computed at run time; the plan uses generous upper bounds and runs past the end are reported as such.
	derLen, pemLen := 520, 760
	stride := 4
	if tier == "thorough" {
		stride = 1
	}
	return derLen + pemLen + 2*(derLen+pemLen)/stride + len(c07unusual)*3
}

type tlv struct {
	off, hdr, length int
	depth            int
	constructed      bool
}

// walkDER lists TLV headers of a well-formed DER blob (recursing into constructed elements).
func walkDER(b []byte, base, depth int, out *[]tlv) {
	i := 0
	for i < len(b) {
		if i+2 > len(b) {
			return
		}
		tag := b[i]
		l := int(b[i+1])
		hdr := 2
		if l&0x80 != 0 {
			nb := l & 0x7f
			if nb == 0 || nb > 4 || i+2+nb > len(b) {
				return
			}
			l = 0
			for k := 0; k < nb; k++ {
				l = l<<8 | int(b[i+2+k])
			}
			hdr = 2 + nb
		}
		if i+hdr+l > len(b) {
			return
		}
		t := tlv{off: base + i, hdr: hdr, length: l, depth: depth, constructed: tag&0x20 != 0}
		*out = append(*out, t)
		if t.constructed {
			walkDER(b[i+hdr:i+hdr+l], base+i+hdr, depth+1, out)
		}
		i += hdr + l
	}
}

var hostileLengths = [][]byte{
	{0x80}, {0x81, 0x00}, {0x81, 0xff}, {0x82, 0xff, 0xff}, {0x83, 0x01, 0x00, 0x00}, {0x84, 0x7f, 0xff, 0xff, 0xff}, {0x84, 0xff, 0xff, 0xff, 0xff},
	{0x88, 0x7f, 0xff, 0xff, 0xff, 0xff, 0xff, 0xff, 0xff}, {0x88, 0x80, 0, 0, 0, 0, 0, 0, 0}, {0x89, 0x01, 0, 0, 0, 0, 0, 0, 0, 0}, {0x8f, 1, 2, 3, 4, 5, 6, 7, 8, 9, 10, 11, 12, 13, 14, 15},
	{0x85, 0x01, 0, 0, 0, 0}, {0x00}, {0x7f}, {0x84, 0x10, 0, 0, 0}, {0x84, 0x40, 0, 0, 0},
}

func runC07(h *Harness) {
	tp := h.Tape
	if !raceBuild {
		// a hostile length must not be able to take the machine down: cap this run's address space
		lim := syscall.Rlimit{Cur: 8 << 30, Max: 8 << 30}
		syscall.Setrlimit(syscall.RLIMIT_AS, &lim)
	}
	sc := h.R.Scenario
	w := NewWorld(h, WorldOpts{})
	derDoc, pemDoc := c07docs(h, w)
	stride := 4
	if h.Tier == "thorough" {
		stride = 1
	}
	dl, pl := len(derDoc.Bytes), len(pemDoc.Bytes)
	path, backend := "first-load", "memory"
	var body []byte
	desc := ""
	idx := h.Idx
	enum := c07enumCount(h.Tier)
	pastEnd := false
	pick := func(i, n int, doc *CRLSpec, what string) bool {
		if i < n {
			if i < len(doc.Bytes) {
				body, desc = doc.Bytes[:i], fmt.Sprintf("%s truncated at %d/%d", what, i, len(doc.Bytes))
			} else {
				pastEnd = true
			}
			return true
		}
		return false
	}
	seg := []struct {
		n    int
		f    func(i int) bool
		path string
	}{
		{520, func(i int) bool { return pick(i, 520, derDoc, "DER") }, "first-load"},
		{760, func(i int) bool { return pick(i, 760, pemDoc, "PEM") }, "first-load"},
		{(520 + 760) / stride, func(i int) bool {
			j := i * stride
			if j < 520 {
				return pick(j, 520, derDoc, "DER")
			}
			return pick(j-520, 760, pemDoc, "PEM")
		}, "provision-file"},
		{(520 + 760) / stride, func(i int) bool {
			j := i * stride
			if j < 520 {
				return pick(j, 520, derDoc, "DER")
			}
			return pick(j-520, 760, pemDoc, "PEM")
		}, "refresh"},
	}
	done := false
	if akiBase := c07truncCount(h.Tier) + c07tlvMax*len(c07structVariants) + len(c07pemCases)*3 + 2*len(c07algOIDs) + 2*len(c07nameValues); idx >= akiBase && idx < enum {
		j := idx - akiBase
		kind := c07akiCases[j%len(c07akiCases)]
		s := *derDoc
		s.AKIRaw = c07aki(kind, w)
		body, desc = s.Build().Bytes, "authorityKeyIdentifier members: "+kind
		path = c07paths[j/len(c07akiCases)]
		backend = []string{"memory", "disk"}[h.Idx%2]
		done = true
	} else if nameBase := c07truncCount(h.Tier) + c07tlvMax*len(c07structVariants) + len(c07pemCases)*3 + 2*len(c07algOIDs); idx >= nameBase && idx < enum {
		j := idx - nameBase
		k, where := j/2, []string{"issuer", "aki-directoryName"}[j%2]
		s := *derDoc
		name := c07name(k)
		if where == "issuer" {
			s.RawIssuer = name
		} else {
			var ab cryptobyte.Builder
			ab.AddASN1(cbasn1.SEQUENCE, func(b *cryptobyte.Builder) {
				b.AddASN1(cbasn1.Tag(1).ContextSpecific().Constructed(), func(b *cryptobyte.Builder) {
					b.AddASN1(cbasn1.Tag(4).ContextSpecific().Constructed(), func(b *cryptobyte.Builder) { b.AddBytes(name) })
				})
				b.AddASN1(cbasn1.Tag(2).ContextSpecific(), func(b *cryptobyte.Builder) { b.AddBytes(w.A.Cert.SerialNumber.Bytes()) })
			})
			s.AKIRaw = ab.BytesOrPanic()
		}
		body, desc = s.Build().Bytes, fmt.Sprintf("name with %s in %s", c07nameValues[k].kind, where)
		path = c07paths[k%3]
		backend = []string{"memory", "disk"}[h.Idx%2]
		done = true
	} else if algBase := c07truncCount(h.Tier) + c07tlvMax*len(c07structVariants) + len(c07pemCases)*3; idx >= algBase && idx < enum {
		j := idx - algBase
		oid := c07algOIDs[j/2]
		s := *derDoc
		s.AlgOID, s.AlgParams = oid, j%2
		body, desc = s.Build().Bytes, fmt.Sprintf("algorithm OID %s params=%s", oid, []string{"absent", "NULL"}[j%2])
		path = c07paths[(j/2)%3]
		backend = []string{"memory", "disk"}[h.Idx%2]
		done = true
	} else if pemBase := c07truncCount(h.Tier) + c07tlvMax*len(c07structVariants); idx >= pemBase && idx < enum {
		j := idx - pemBase
		k := c07pemCases[j%len(c07pemCases)]
		path = c07paths[j/len(c07pemCases)]
		body, desc = c07pem(k, pemDoc.Bytes), "pem:"+k
		backend = []string{"memory", "disk"}[h.Idx%2]
		done = true
	} else if idx >= c07truncCount(h.Tier) && idx < enum {
		// structural edits, enumerated: every TLV header of the DER document x variant, on the first-load path and
		// (every third) on the refresh path
		j := idx - c07truncCount(h.Tier)
		ti, vi := j/len(c07structVariants), j%len(c07structVariants)
		var ts []tlv
		walkDER(derDoc.Bytes, 0, 0, &ts)
		if ti >= len(ts) {
			h.Probe("tlv-index-past-end")
			sc["skipped"] = "TLV index beyond the document"
			h.R.Sample = map[string]any{"skipped": true}
			return
		}
		t := ts[ti]
		b := append([]byte(nil), derDoc.Bytes...)
		v := c07structVariants[vi]
		switch v {
		case "tag:=31":
			b[t.off] = 0x31
		case "tag:=04":
			b[t.off] = 0x04
		case "tag:=30":
			b[t.off] = 0x30
		case "len+1":
			b[t.off+t.hdr-1]++
		case "len-1":
			b[t.off+t.hdr-1]--
		case "len:=80":
			b = append(append(append([]byte(nil), b[:t.off+1]...), 0x80), b[t.off+t.hdr:]...)
		case "len:=847fffffff":
			b = append(append(append([]byte(nil), b[:t.off+1]...), 0x84, 0x7f, 0xff, 0xff, 0xff), b[t.off+t.hdr:]...)
		case "len:=8410000000":
			b = append(append(append([]byte(nil), b[:t.off+1]...), 0x84, 0x10, 0, 0, 0), b[t.off+t.hdr:]...)
		case "drop": // the element is missing altogether (enclosing lengths left as they are)
			b = append(append([]byte(nil), b[:t.off]...), b[t.off+t.hdr+t.length:]...)
		default:
			if strings.HasPrefix(v, "fit:len:=") {
				nl, err := hex.DecodeString(strings.TrimPrefix(v, "fit:len:="))
				if err != nil {
					panic(err)
				}
				b = rewriteLengthFitting(b, ts, ti, nl)
			}
		}
		body, desc = b, fmt.Sprintf("struct %s at TLV %d (offset %d, depth %d)", v, ti, t.off, t.depth)
		if ti%3 == 2 {
			path = "refresh"
		}
		backend = []string{"memory", "disk"}[h.Idx%2]
		done = true
	} else if idx < enum {
		for _, s := range seg {
			if idx < s.n {
				s.f(idx)
				path = s.path
				done = true
				break
			}
			idx -= s.n
		}
		if !done {
			// unusual-but-valid documents on all three paths
			u := c07unusual[idx%len(c07unusual)]
			path = c07paths[(idx/len(c07unusual))%3]
			body, desc = c07unusualDoc(w, u), "unusual:"+u
		}
		backend = []string{"memory", "disk"}[h.Idx%2]
	} else {
		path = c07paths[tp.Int(3)]
		backend = Pick(tp, "memory", "disk")
		base := derDoc
		if tp.Chance(1, 3) {
			base = pemDoc
		}
		body, desc = c07mutate(tp, w, base)
	}
	if pastEnd {
		h.Probe("truncation-past-end")
		sc["skipped"] = "truncation index beyond the document"
		h.R.Sample = map[string]any{"skipped": true}
		return
	}
	_ = dl
	_ = pl
	sc["path"], sc["backend"], sc["case"], sc["size"] = path, backend, desc, len(body)
	h.R.Config = "faulty"
	h.R.NonTrivial = !bytes.Equal(body, derDoc.Bytes) && !bytes.Equal(body, pemDoc.Bytes)

	goodLoc := w.NewLocation(LocOpts{Name: "L1", URL: "http://crl.sim/a.crl", Issuer: w.A, NVers: 2, Extra: 2, Width: 8})
	hostile := false
	h.Net.Handle(goodLoc.URL, func(hit *NetHit) Delivery {
		if hostile {
			return Delivery{Kind: dReply, Status: 200, Body: body, CutAt: -1, Chunk: Pick(tp, 0, 1, 17, 4096), Doc: "hostile", Note: desc}
		}
		return goodLoc.serve(hit)
	})
	cfg := NodeCfg{Mode: "crl_only", Storage: backend, UpdateInterval: "10m", SigMode: "verify", CDPStrict: true}
	var fileP string
	if path == "provision-file" {
		fileP = h.WriteFile("files/hostile.crl", body)
		cfg.CRLFiles = []string{fileP}
		cfg.TrustedSigFiles = []string{h.WriteFile("trust/a.pem", CertPEM(w.A.Cert))}
	}
	n := h.NewNode("n1", cfg)
	var ms0, ms1 runtime.MemStats
	limit := uint64(64<<20) + 64*uint64(len(body))
	measure := func(what string, f func()) {
		runtime.ReadMemStats(&ms0)
		f()
		runtime.ReadMemStats(&ms1)
		h.R.Checks++
		if d := ms1.TotalAlloc - ms0.TotalAlloc; d > limit {
			h.Violation("C07.allocation", "alloc:"+path+":"+caseClass(desc), "%s allocated %d bytes while processing a %d-byte hostile document (%s); bound %d", what, d, len(body), desc, limit)
		}
	}
	switch path {
	case "provision-file":
		measure("Provision with a hostile crl_files entry", func() { h.Provision(n) })
		sc["provision_err"] = n.ProvErr != nil
		if n.ProvErr != nil {
			// totality only: an error is the expected answer. The validator must be provisionable without the file.
			cfg2 := cfg
			cfg2.CRLFiles = nil
			n2 := h.NewNode("n2", cfg2)
			if err := h.Provision(n2); err != nil {
				h.Violation("C07.still-answers", "provision-after-hostile-file", "after a failed provisioning with a hostile file, a clean validator cannot be provisioned: %v", err)
				return
			}
			n = n2
		}
	case "first-load":
		if err := h.Provision(n); err != nil {
			h.Violation("C07.setup", "provision-failed", "%v", err)
			return
		}
		hostile = true
		measure("handshake-time first load of a hostile CRL", func() {
			h.Handshake(n, "hostile", w.ChainFor(goodLoc.Cert(goodLoc.Never[0]), w.A))
		})
	case "refresh":
		if err := h.Provision(n); err != nil {
			h.Violation("C07.setup", "provision-failed", "%v", err)
			return
		}
		hs := h.Handshake(n, "load", w.ChainFor(goodLoc.Cert(goodLoc.Never[0]), w.A))
		if hs.Err != nil {
			h.Violation("C07.setup", "first-load-failed", "%v", hs.Err)
			return
		}
		hostile = true
		measure("periodic refresh fetching a hostile CRL", func() { h.Settle(10*time.Minute + 30*time.Second) })
	}
	hostile = false
	// the validator still answers, and a later good delivery is processed
	goodLoc.Cur = 1
	h.Settle(10*time.Minute + 30*time.Second)
	hs := h.Handshake(n, "after", w.ChainFor(goodLoc.Cert(goodLoc.Common), w.A))
	h.Quiesce()
	h.R.Checks++
	if !isRevokedErr(hs.Err) {
		// the good list lists 'common'; after the hostile episode the next handshake/refresh must pick it up
		h.Violation("C07.still-answers", "not-recovered:"+path, "after the hostile delivery (%s) on path %s, a handshake for a certificate listed in the good CRL now served returned %s", desc, path, errStr(hs.Err))
	}
	h.R.Sample = map[string]any{"path": path, "backend": backend, "case": desc, "size": len(body)}
	h.Cleanup(n)
}

func caseClass(desc string) string {
	for i, c := range desc {
		if !(c >= 'a' && c <= 'z' || c >= 'A' && c <= 'Z' || c == '-') {
			if i > 0 {
				return desc[:i]
			}
			break
		}
	}
	if i := strings.IndexAny(desc, " :"); i > 0 {
		return desc[:i]
	}
	return desc
}

func c07unusualDoc(w *World, kind string) []byte {
	s := &CRLSpec{Name: kind, Issuer: w.A, AutoAlg: true, ThisUpdate: epoch, NextUpdate: epoch.Add(24 * time.Hour), Number: 9}
	ent := func() {
		for i := 0; i < 3; i++ {
			s.Entries = append(s.Entries, CRLEntrySpec{Serial: SerialOfWidth(8, 0x21, uint32(i+1)), Date: epoch.Add(-time.Hour)})
		}
	}
	switch kind {
	case "v1":
		s.Version = 1
		ent()
	case "v2-no-extensions":
		s.NoExts = true
		ent()
	case "no-entries":
	case "no-nextupdate":
		s.NextUpdate = time.Time{}
		ent()
	case "no-entries-no-extensions":
		s.NoExts = true
	case "empty":
		return nil
	case "v3":
		s.Version = 3
		ent()
	case "critical-unknown":
		s.CritUnknown = true
		ent()
	}
	return s.Build().Bytes
}

func c07mutate(tp *Tape, w *World, base *CRLSpec) ([]byte, string) {
	b := append([]byte(nil), base.Bytes...)
	if base.PEM {
		k := c07pemCases[tp.Int(len(c07pemCases))]
		return c07pem(k, b), "pem:" + k
	}
	var ts []tlv
	walkDER(b, 0, 0, &ts)
	switch tp.Weighted(6, 2, 1, 1, 2, 1) {
	case 0: // rewrite a length field
		t := ts[tp.Int(len(ts))]
		hl := hostileLengths[tp.Int(len(hostileLengths))]
		out := append([]byte(nil), b[:t.off+1]...)
		out = append(out, hl...)
		out = append(out, b[t.off+t.hdr:]...)
		return out, fmt.Sprintf("length@%d(depth %d):=%x", t.off, t.depth, hl)
	case 1: // tag swap
		t := ts[tp.Int(len(ts))]
		tag := Pick(tp, byte(0x30), 0x31, 0x02, 0x03, 0x04, 0x05, 0x06, 0x17, 0x18, 0xa0, 0xa3, 0x80, 0x00, 0xff, 0x1f)
		b[t.off] = tag
		return b, fmt.Sprintf("tag@%d:=%02x", t.off, tag)
	case 2: // random bytes
		n := Pick(tp, 1, 2, 16, 300, 5000)
		g := make([]byte, n)
		for i := range g {
			g[i] = byte(tp.Int(256))
		}
		return g, fmt.Sprintf("random:%d", n)
	case 3: // deep nesting
		d := Pick(tp, 50, 1000, 20000)
		g := bytes.Repeat([]byte{0x30, 0x80}, d)
		return g, fmt.Sprintf("nesting:%d", d)
	case 4: // hostile AKI value inside crlExtensions: find the AKI OCTET STRING and overwrite its content
		oid := []byte{0x06, 0x03, 0x55, 0x1d, 0x23}
		i := bytes.Index(b, oid)
		if i > 0 && i+len(oid)+2 < len(b) {
			j := i + len(oid) // OCTET STRING header
			l := int(b[j+1])
			k := tp.Int(5)
			for x := 0; x < l && j+2+x < len(b); x++ {
				switch k {
				case 0:
					b[j+2+x] = 0xff
				case 1:
					b[j+2+x] = 0x00
				case 2:
					b[j+2+x] = 0x80
				case 3:
					b[j+2+x] = byte(tp.Int(256))
				default:
					if x == 1 {
						b[j+2+x] = 0x84
					}
				}
			}
			return b, fmt.Sprintf("aki-value:%d", k)
		}
		return b[:len(b)/3], "truncated-third"
	default: // single byte flip
		p := tp.Int(len(b))
		b[p] ^= byte(1 << uint(tp.Int(8)))
		return b, fmt.Sprintf("byteflip@%d", p)
	}
}

// rewriteLengthFitting replaces the length octets of TLV ti by nl and adds the bytes this inserts to the length of
// every enclosing element (re-encoding those lengths, which may grow their headers in turn).
func rewriteLengthFitting(der []byte, ts []tlv, ti int, nl []byte) []byte {
	t := ts[ti]
	b := append(append(append([]byte(nil), der[:t.off+1]...), nl...), der[t.off+t.hdr:]...)
	delta := 1 + len(nl) - t.hdr
	// enclosing elements, innermost first (they start before t and end after it)
	for k := ti - 1; k >= 0; k-- {
		a := ts[k]
		if !(a.constructed && a.off < t.off && t.off < a.off+a.hdr+a.length) {
			continue
		}
		enc := derLength(a.length + delta)
		b = append(append(append([]byte(nil), b[:a.off+1]...), enc...), b[a.off+a.hdr:]...)
		delta += 1 + len(enc) - a.hdr
	}
	return b
}

func derLength(n int) []byte {
	switch {
	case n < 0x80:
		return []byte{byte(n)}
	case n < 0x100:
		return []byte{0x81, byte(n)}
	case n < 0x10000:
		return []byte{0x82, byte(n >> 8), byte(n)}
	default:
		return []byte{0x83, byte(n >> 16), byte(n >> 8), byte(n)}
	}
}
