package verifsim

import (
	"crypto"
	"crypto/x509"
	"fmt"
	"strings"
	"time"
)

// C04 — CRL authenticity under 'verify'. The origin (or the network) is a Byzantine party:
//
//	(a) every single-bit flip of tbsCertList, signatureAlgorithm and signatureValue of a small CRL
//	    (enumerated completely), on the first-load path and, sampled, on the refresh path;
//	(b) signer matrix: issuer (legitimate), configured trusted signer (legitimate), sibling CA with
//	    the issuer's name, unrelated stranger, the client certificate's own key, a CA whose key usage
//	    lacks cRLSign; x authorityKeyIdentifier form x intake path (first CDP load, crl_urls at
//	    provision, periodic refresh);
//	(c) algorithm menu: RSA PKCS#1 v1.5 and ECDSA with SHA-1/224/256/384/512 (legitimate),
//	    RSA-PSS, Ed25519, MD5 (must be refused).
//
// Oracle: if the delivered document is not authentic (reference: Go's crypto over the exact TBS
// bytes, signer entitled), the validator's pure probes never show its distinguishing serials and a
// strict handshake for that distribution point is denied unless an earlier authentic version is in
// force. For an authentic document nothing is demanded here (that is C15/C16).

var c04signers = []string{"issuer", "trusted", "sibling", "stranger", "ee-key", "ca-no-crlsign", "replayed-signature", "root", "ee-key-leaf-alone"}
var c04akis = []int{akiDefault, akiAbsent, akiIssuerSer, akiBoth, akiForeignKey, akiSerialOnly, akiURISerial}
var c04paths = []string{"first-load", "provision-url", "refresh", "reprovision-without-signer"}
var c04algs = []SigAlg{ECDSASHA256, ECDSASHA1, ECDSASHA224, ECDSASHA384, ECDSASHA512, RSASHA256, RSASHA1, RSASHA224, RSASHA384, RSASHA512, RSAPSSSHA256, ED25519, MD5RSA}

func c04matrix() (n int) {
	return len(c04signers)*len(c04akis)*len(c04paths) + len(c04algs)*len(c04paths)
}

const c04bitsUpper = 3200

func init() {
	register(&PropDef{ID: "C04", Plan: func(tier string) Plan {
		m := c04matrix()
		e := m + c04bitsUpper
		n := e + 200
		if tier == "thorough" {
			n = e + c04bitsUpper + 3000 // RSA sweep + sampled refresh-path flips and larger documents
		}
		// the last runs take two lists in AT THE SAME TIME (a genuine one and a forgery carrying the genuine one's
		// signature value) under heavy preemption and under the race detector: what one intake computes must not
		// reach the other
		conc := c04concurrentRuns(tier)
		n += conc
		return Plan{Runs: n, Enumerated: e + conc, RaceFrom: e, RaceTo: e + conc, Exhaustive: true, Level: "fault_enumeration", Rule: "enumerated: (signer in {issuer, configured trusted signer, sibling CA with the same name, stranger, the client certificate's own key, the same with the client certificate presented alone as a directly trusted leaf, CA without cRLSign, the issuer's genuine signature of ANOTHER list the validator verified earlier in the same process, the root of the presented chain signing in the issuer's name} x AKI form in {keyId, absent, issuer+serial, both, foreign keyId, serial without issuer, URI issuer + serial} x intake path in {first CDP load, crl_urls at provision, periodic refresh, and - for the configured trusted signer - a restart on the same work_dir with that signer withdrawn from the configuration}) + (13 signature algorithms x intake path) + every single-bit flip of tbsCertList / signatureAlgorithm / signatureValue of a small ECDSA CRL on the first-load path (bit indices past the end of the document are counted as skipped); further runs: the same sweep for an RSA CRL (thorough), flips on the refresh path and on larger documents; 48 (thorough: 400) runs right after the enumerated ones run under seeded preemption and the race detector, alternating: a genuine list and a forgery carrying its signature value taken in at the same time; and a list for CA A's distribution point signed by CA B (trusted for its own clients only) taken in while a client of CA B shakes hands beside it, with 0..7 unrelated configured trusted signers, fetch_actively or fetch_background; oracle: a non-authentic document is never observed in force and a strict handshake for its distribution point is denied unless an earlier authentic version is in force; non-trivial = the delivered document was not authentic"}
	}, Run: runC04})
}

func c04concurrentRuns(tier string) int {
	if tier == "thorough" {
		return 400
	}
	return 48
}

func c04total(tier string) int {
	m := c04matrix()
	e := m + c04bitsUpper
	if tier == "thorough" {
		return e + c04bitsUpper + 3000 + c04concurrentRuns(tier)
	}
	return e + 200 + c04concurrentRuns(tier)
}

// c04concurrentIntake: location L0 serves a genuine list, location L1 a list with altered content that carries the
// signature value of L0's list (same issuer, same algorithm). Both are met for the first time at the same instant.
func c04concurrentIntake(h *Harness) {
	tp := h.Tape
	sc := h.R.Scenario
	backend := []string{"memory", "disk"}[(h.Idx/2)%2]
	h.S.pPre = uint64(Pick(tp, 200, 400, 700)) * (1 << 32) / 1000
	h.S.stallSteps, h.S.pDelayDen, h.S.delayFor = Pick(tp, 0, 30, 300), Pick(tp, 0, 4), 2*time.Second
	sc["case"], sc["path"], sc["backend"], sc["authentic"] = "signer=replayed-signature concurrent-intake", "first-load", backend, false
	h.R.NonTrivial, h.R.Config = true, "faulty"
	w := NewWorld(h, WorldOpts{RSA: h.Idx%3 == 0, Intermediate: tp.Chance(1, 2)})
	l0 := w.NewLocation(LocOpts{Name: "L0", URL: "http://crl0.sim/genuine.crl", Issuer: w.A, NVers: 1, Extra: Pick(tp, 2, 40), Width: 9, Base: 9})
	l1 := w.NewLocation(LocOpts{Name: "L1", URL: "http://crl.sim/a.crl", Issuer: w.A, NVers: 1, Extra: Pick(tp, 2, 40), Width: 8})
	g := *l0.Versions[0]
	g.AutoAlg = true
	g.Build()
	l0.Versions[0] = &g
	f := *l1.Versions[0]
	f.AutoAlg, f.SigOverride = true, g.Sig
	f.Build()
	l1.Versions[0] = &f
	cfg := NodeCfg{Mode: "crl_only", Storage: backend, UpdateInterval: "10m", SigMode: "verify", CDPStrict: true}
	n := h.NewNode("n1", cfg)
	if err := h.Provision(n); err != nil {
		h.Violation("C04.setup", "provision-failed", "%v", err)
		return
	}
	a := h.StartHandshake(n, "genuine", w.ChainFor(l0.Cert(l0.Never[0]), w.A))
	b := h.StartHandshake(n, "forged", w.ChainFor(l1.Cert(l1.Never[0]), w.A))
	h.Wait(a.Task, b.Task)
	h.Quiesce()
	h.R.Checks += 2
	if b.Err == nil {
		h.Violation("C04.strict-accept-unauthentic", "signer=replayed-signature:concurrent-intake", "strict: a handshake was accepted although the only CRL ever delivered for its distribution point is a forgery carrying another list's signature value (taken in at the same time as that other list)")
	}
	if p := l1.Pattern(n); p == "v1" || strings.HasPrefix(p, "other") {
		h.Violation("C04.unauthentic-in-force", "signer=replayed-signature:concurrent-intake", "the probes show the forged list in force (pattern %s): it was taken in while the genuine list whose signature value it carries was being read", p)
	}
	h.R.Sample = map[string]any{"case": "concurrent intake of a genuine list and a forgery with its signature", "backend": backend}
	h.Cleanup(n)
}

// c04foreignBeside: the only list ever delivered for the distribution point of CA A's certificates carries A's name but
// is signed by CA B (authority key identifier of B) - B is trusted for ITS clients, it is not above A's certificates.
// While A's client waits for that (slow) download - or, with fetch_background, before the background load has
// verified it - a client of CA B shakes hands, presenting B's chain. With 0..7 unrelated configured trusted signers.
// Whatever the two handshakes share, B's certificate is no signer for A's distribution point.
func c04foreignBeside(h *Harness) {
	tp := h.Tape
	sc := h.R.Scenario
	backend := []string{"memory", "disk"}[(h.Idx/2)%2]
	k := tp.Int(8)
	fetch := Pick(tp, "", "fetch_background")
	h.S.pPre = uint64(Pick(tp, 50, 200, 400)) * (1 << 32) / 1000
	h.S.stallSteps, h.S.pDelayDen, h.S.delayFor = Pick(tp, 0, 30, 300), Pick(tp, 0, 4), 2*time.Second
	sc["case"], sc["path"], sc["backend"], sc["authentic"] = fmt.Sprintf("signer=other-client-ca beside trusted-signers=%d fetch=%s", k, fetch), "first-load", backend, false
	h.R.NonTrivial, h.R.Config = true, "faulty"
	w := NewWorld(h, WorldOpts{Intermediate: tp.Chance(1, 2)})
	l1 := w.NewLocation(LocOpts{Name: "L1", URL: "http://crl.sim/a.crl", Issuer: w.A, NVers: 1, Extra: Pick(tp, 2, 40), Width: 8})
	l2 := w.NewLocation(LocOpts{Name: "L2", URL: "http://crlb.sim/b.crl", Issuer: w.B, NVers: 1, Extra: 2, Width: 8, Base: 7})
	f := *l1.Versions[0]
	f.Signer, f.SignerKey, f.AutoAlg = w.B, nil, true
	f.Build()
	l1.Versions[0] = &f
	l1.SlowFirst = Pick(tp, 5*time.Second, 30*time.Second)
	var trusted []string
	for i := 0; i < k; i++ {
		u := NewCA(nil, CAOpts{CN: fmt.Sprintf("Unrelated Signer %d", i)})
		trusted = append(trusted, h.WriteFile(fmt.Sprintf("trust/unrelated%d.pem", i), CertPEM(u.Cert)))
	}
	cfg := NodeCfg{Mode: "crl_only", Storage: backend, UpdateInterval: "10m", SigMode: "verify", CDPStrict: true, FetchMode: fetch, TrustedSigFiles: trusted}
	n := h.NewNode("n1", cfg)
	if err := h.Provision(n); err != nil {
		h.Violation("C04.setup", "provision-failed", "%v", err)
		return
	}
	a := h.StartHandshake(n, "client-of-a", w.ChainFor(l1.Cert(l1.Never[0]), w.A))
	h.S.Run(func(v schedView) bool { return l1.Fetches > 0 || a.Task.done }, h.S.Now()+time.Minute)
	b := h.StartHandshake(n, "client-of-b", w.ChainFor(l2.Cert(l2.Never[0]), w.B))
	h.Wait(a.Task, b.Task)
	h.Settle(time.Minute)
	a2 := h.Handshake(n, "client-of-a-again", w.ChainFor(l1.Cert(l1.Never[0]), w.A))
	h.Quiesce()
	h.R.Checks += 3
	sig := fmt.Sprintf("signer=other-client-ca:beside:trusted=%d", k)
	if a.Err == nil || a2.Err == nil {
		h.Violation("C04.strict-accept-unauthentic", sig, "strict: a handshake of CA A's client was accepted (first: %s, again: %s) although the only CRL ever delivered for its distribution point is signed by CA B, which is neither above that certificate nor a configured signer; a client of CA B shook hands beside it (%d unrelated trusted signers, fetch mode %q)", errStr(a.Err), errStr(a2.Err), k, fetch)
	}
	if p := l1.Pattern(n); p == "v1" || strings.HasPrefix(p, "other") {
		h.Violation("C04.unauthentic-in-force", sig, "the probes show the list signed by CA B in force for CA A's distribution point (pattern %s); a client of CA B shook hands while it was being taken in (%d unrelated trusted signers, fetch mode %q)", p, k, fetch)
	}
	if b.Err != nil {
		h.Probe("beside-client-of-b-denied")
	}
	h.R.Sample = map[string]any{"case": sc["case"], "backend": backend}
	h.Cleanup(n)
}

func runC04(h *Harness) {
	tp := h.Tape
	sc := h.R.Scenario
	if e := c04matrix() + c04bitsUpper; h.Idx >= e {
		if h.Idx < e+c04concurrentRuns(h.Tier) {
			if (h.Idx-e)%2 == 1 {
				c04foreignBeside(h)
			} else {
				c04concurrentIntake(h)
			}
			return
		}
		h.Idx -= c04concurrentRuns(h.Tier) // the runs behind keep their numbering
	}
	m := c04matrix()
	signer, aki, path := "issuer", akiDefault, "first-load"
	alg := SigAlg(-1)
	flipBit := -1
	rsaWorld := false
	extra := 2
	switch {
	case h.Idx < len(c04signers)*len(c04akis)*len(c04paths):
		i := h.Idx
		signer = c04signers[i%len(c04signers)]
		i /= len(c04signers)
		aki = c04akis[i%len(c04akis)]
		i /= len(c04akis)
		path = c04paths[i%len(c04paths)]
	case h.Idx < m:
		i := h.Idx - len(c04signers)*len(c04akis)*len(c04paths)
		alg = c04algs[i%len(c04algs)]
		path = c04paths[(i/len(c04algs))%len(c04paths)]
		rsaWorld = alg.IsRSA()
	case h.Idx < m+c04bitsUpper:
		flipBit = h.Idx - m
	case h.Tier == "thorough" && h.Idx < m+2*c04bitsUpper:
		flipBit = h.Idx - m - c04bitsUpper
		rsaWorld = true
	default:
		flipBit = -2 // tape-chosen
		path = Pick(tp, "refresh", "first-load", "refresh")
		rsaWorld = tp.Chance(1, 3)
		extra = Pick(tp, 2, 30, 200)
	}
	backend := []string{"memory", "disk"}[h.Idx%2]
	if path == "reprovision-without-signer" {
		if signer != "trusted" || flipBit != -1 || alg >= 0 {
			h.Probe("cell-not-applicable")
			sc["skipped"] = "the withdrawn-signer history exists for the configured trusted signer only"
			h.R.Sample = map[string]any{"skipped": true}
			return
		}
		c04withdrawnSigner(h, aki, []string{"disk", "memory"}[(h.Idx/len(c04signers))%2])
		return
	}
	if signer == "ca-no-crlsign" && path == "refresh" {
		// an issuer that may not sign CRLs cannot have a first version accepted either: the cell does not exist
		h.Probe("cell-not-applicable")
		sc["skipped"] = "no acceptable first version exists for an issuer without cRLSign"
		h.R.Sample = map[string]any{"skipped": true}
		return
	}
	w := NewWorld(h, WorldOpts{RSA: rsaWorld, Intermediate: h.Idx%3 == 0})
	issuer := w.A
	if signer == "ca-no-crlsign" {
		issuer = NewCA(w.Root, CAOpts{CN: "CA without cRLSign", KeyUsage: x509.KeyUsageCertSign, RSA: map[bool]int{true: 7, false: 0}[rsaWorld]})
	}
	trustedT := NewCA(nil, CAOpts{CN: "x", SubjectOf: issuer, RSA: map[bool]int{true: 8, false: 0}[rsaWorld]}) // configured trusted signer: same name as the issuer, own key
	loc := w.NewLocation(LocOpts{Name: "L1", URL: "http://crl.sim/a.crl", Issuer: issuer, NVers: 2, Extra: extra, Width: 8, AKI: akiDefault})
	// the presented certificate (its key is one of the forged signers)
	eeCert, eeKey := issuer.IssueWithKey(EEOpts{Serial: loc.Never[0], CDP: []string{loc.URL}, RSA: map[bool]int{true: 6, false: 0}[rsaWorld],
		NoKeyUsage: signer == "ee-key-leaf-alone"}) // (a leaf without a keyUsage extension is not held back by that extension)
	chain := w.ChainFor(eeCert, issuer)
	if issuer != w.A {
		chain = [][]*x509.Certificate{{eeCert, issuer.Cert, w.Root.Cert}}
	}
	// which version is the document under test
	target := 0
	if path == "refresh" {
		target = 1
	}
	orig := loc.Versions[target]
	doc := *orig
	var earlier *Location // a location whose authentic list is loaded before the document under test (signature replay)
	authentic := true
	desc := ""
	switch {
	case flipBit != -1:
		doc.Build()
		der := append([]byte(nil), doc.DER...)
		// regions after the outer SEQUENCE header: tbs | sigalg | sigvalue
		hdr := 2
		if der[1]&0x80 != 0 {
			hdr = 2 + int(der[1]&0x7f)
		}
		nbits := (len(der) - hdr) * 8
		b := flipBit
		if b == -2 {
			b = tp.Int(nbits)
		}
		if b >= nbits {
			h.Probe("bit-past-end")
			sc["skipped"] = "bit index beyond the document"
			h.R.Sample = map[string]any{"skipped": true}
			return
		}
		pos := hdr + b/8
		lo, hi := pos-8, pos+8
		if lo < 0 {
			lo = 0
		}
		if hi > len(der) {
			hi = len(der)
		}
		sc["flip_context"] = fmt.Sprintf("offset %d of %d, original byte %02x, bytes %x|%02x|%x (tbs ends at %d)", pos, len(der), der[pos], der[lo:pos], der[pos], der[pos+1:hi], hdr+len(doc.TBS))
		der[pos] ^= 1 << uint(7-b%8)
		doc.DER, doc.Bytes = der, der
		doc.Name = fmt.Sprintf("%s+bit%d", orig.Name, b)
		region := "tbs"
		if hdr+b/8 >= hdr+len(doc.TBS) {
			region = "sigalg-or-sig"
		}
		authentic = false
		desc = fmt.Sprintf("bitflip %d (%s) of %d, %s", b, region, nbits, map[bool]string{true: "rsa", false: "ecdsa"}[rsaWorld])
		sc["region"] = region
	case alg >= 0:
		doc.Alg, doc.AutoAlg = alg, false
		if alg == ED25519 {
			ed := NewCA(nil, CAOpts{CN: "x", SubjectOf: issuer, Ed25519: true})
			doc.Signer, doc.SignerKey = ed, nil
		}
		doc.AKI = akiAbsent
		doc.Build()
		authentic = alg.Supported()
		desc = "alg " + alg.String()
	default:
		doc.AKI = aki
		switch signer {
		case "issuer", "ca-no-crlsign":
			doc.Signer = issuer
			// the issuer matches the CRL's issuer name whatever the AKI says ('matches the issuer name OR the authority key
			// identifier'): entitled unless its key usage forbids CRL signing; nothing is demanded for an authentic list
			authentic = signer == "issuer"
		case "trusted":
			// the configured signer carries the issuer's name: entitled by name, whatever the AKI says
			doc.Signer = trustedT
		case "sibling":
			doc.Signer, authentic = w.Sib, false
			if issuer != w.A {
				doc.Signer = NewCA(nil, CAOpts{CN: "x", SubjectOf: issuer})
			}
		case "root":
			// a member of the presented chain other than the CRL's issuer signs in the issuer's name (no indirect CRLs:
			// only the certificate's issuer, or a configured signer, is entitled)
			doc.Signer = w.Root
			// The property entitles 'a CA certificate above the end-entity in the presented chain ... that matches the
			// CRL's issuer name or authority key identifier'. The root does not carry the issuer's name, so it is entitled
			// exactly when the AKI identifies it properly: by key identifier and/or by issuer AND serial. A serial alone
			// (or with a non-name issuer) identifies no certificate.
			authentic = aki == akiDefault || aki == akiIssuerSer || aki == akiBoth
		case "stranger":
			doc.Signer, authentic = w.X, false
		case "ee-key", "ee-key-leaf-alone":
			ee := &CA{Name: "ee", Cert: eeCert, Key: eeKey}
			doc.Signer, authentic = ee, false
			if signer == "ee-key-leaf-alone" {
				// the client certificate is itself in the trust pool and is presented alone: the verified chain holds
				// nothing but the leaf, and nothing in it is "above the end-entity"
				chain = [][]*x509.Certificate{{eeCert}}
			}
		case "replayed-signature":
			// the genuine signature value of another list of the same issuer, which the validator has verified earlier
			// in this process: the previous version of this location (refresh) or the list of a sibling location
			doc.Signer, authentic = issuer, false
			src := loc.Versions[0]
			if path != "refresh" {
				earlier = w.NewLocation(LocOpts{Name: "L0", URL: "http://crl0.sim/earlier.crl", Issuer: issuer, NVers: 1, Extra: 1, Width: 9, Base: 9})
				src = earlier.Versions[0]
			}
			s := *src
			s.AutoAlg, s.AKI = true, aki
			if aki == akiForeignKey || aki == akiSerialOnly || aki == akiURISerial {
				s.AKI = akiDefault // the earlier list must itself be acceptable
			}
			s.Build()
			if path == "refresh" {
				loc.Versions[0] = &s
			} else {
				earlier.Versions[0] = &s
			}
			doc.SigOverride = s.Sig
		}
		doc.AutoAlg = true
		doc.Build()
		desc = fmt.Sprintf("signer=%s aki=%d", signer, aki)
	}
	// reference cross-check of "authentic" for the signer matrix: the signature must verify under the claimed signer
	if authentic && flipBit == -1 {
		if !VerifiesUnder(doc.DER, doc.Signer.Cert) {
			panic("harness: a document meant to be authentic does not verify under its signer")
		}
	}
	sc["case"], sc["path"], sc["backend"], sc["authentic"] = desc, path, backend, authentic
	if !authentic {
		h.R.NonTrivial = true
		h.R.Config = "faulty"
	}
	loc.Versions[target] = &doc
	cfg := NodeCfg{Mode: "crl_only", Storage: backend, UpdateInterval: "10m", SigMode: Pick(tp, "verify", ""), CDPStrict: true,
		TrustedSigFiles: []string{h.WriteFile("trust/t.pem", CertPEM(trustedT.Cert))}}
	if path == "provision-url" {
		cfg.CRLUrls = []string{loc.URL}
		if earlier != nil {
			cfg.CRLUrls = []string{earlier.URL, loc.URL}
			cfg.TrustedSigFiles = append(cfg.TrustedSigFiles, h.WriteFile("trust/i0.pem", CertPEM(issuer.Cert)))
		}
		if signer == "issuer" || alg >= 0 {
			// a configured CRL can only be verified through configured signers: trust the issuer itself as well
			cfg.TrustedSigFiles = append(cfg.TrustedSigFiles, h.WriteFile("trust/i.pem", CertPEM(issuer.Cert)))
		}
	}
	if signer == "ee-key-leaf-alone" {
		// a chain without any CA: the genuine lists can only be verified through a configured signer
		cfg.TrustedSigFiles = append(cfg.TrustedSigFiles, h.WriteFile("trust/leaf-alone-issuer.pem", CertPEM(issuer.Cert)))
	}
	loc.Cur = 0
	n := h.NewNode("n1", cfg)
	err := h.Provision(n)
	h.Quiesce()
	verdictOf := func(x *HS) string {
		v := errStr(x.Err)
		if x.Err != nil && strings.Contains(x.Err.Error(), "not loaded") {
			v = "not-loaded"
		}
		return v
	}
	inForceForged := func(when string) {
		p := loc.Pattern(n)
		h.R.Checks++
		if !authentic && p == fmt.Sprintf("v%d", target+1) {
			h.Violation("C04.unauthentic-in-force", c04class(desc)+":"+path, "%s: the probes show %s in force, which was only delivered as a non-authentic document (%s)", when, p, desc)
		} else if !authentic && strings.HasPrefix(p, "other") {
			h.Violation("C04.unauthentic-in-force", "partial:"+c04class(desc)+":"+path, "%s: the probes show entries of a non-authentic document (%s) answering (pattern %s)", when, desc, p)
		}
		sc["pattern_"+when] = p
	}
	switch path {
	case "provision-url":
		sc["provision_err"] = err != nil
		if err != nil {
			if authentic {
				h.Probe("authentic-rejected-at-provision")
			}
			h.R.Sample = map[string]any{"case": desc, "path": path, "provision": "failed"}
			return
		}
		inForceForged("after-provision")
		// no CDP on the certificate: the configured list is the only one
		c2 := issuer.Issue(EEOpts{Serial: loc.OnlyV[0], CDP: []string{}})
		hs := h.Handshake(n, "only", [][]*x509.Certificate{append([]*x509.Certificate{c2}, chain[0][1:]...)})
		if !authentic && isRevokedErr(hs.Err) {
			h.Violation("C04.unauthentic-decides", c04class(desc)+":"+path, "a certificate was rejected as revoked on the strength of a non-authentic CRL (%s)", desc)
		}
	case "first-load":
		if err != nil {
			h.Violation("C04.setup", "provision-failed", "%v", err)
			return
		}
		if earlier != nil {
			c0 := issuer.Issue(EEOpts{Serial: earlier.Never[0], CDP: []string{earlier.URL}})
			if x := h.Handshake(n, "earlier", [][]*x509.Certificate{append([]*x509.Certificate{c0}, chain[0][1:]...)}); x.Err != nil {
				h.Violation("C04.setup", "authentic-first-load-failed", "the authentic list of the sibling location was not accepted: %v", x.Err)
				return
			}
		}
		hs := h.Handshake(n, "first", chain)
		h.Quiesce()
		v := verdictOf(hs)
		sc["hs"] = v
		if !authentic && hs.Err == nil {
			h.Violation("C04.strict-accept-unauthentic", c04class(desc)+":"+path, "strict: the handshake was accepted although the only CRL ever delivered for its distribution point is not authentic (%s)", desc)
		}
		if authentic && hs.Err != nil {
			h.Probe("authentic-rejected:" + c04class(desc))
		}
		inForceForged("after-first-load")
	case "refresh":
		if err != nil {
			h.Violation("C04.setup", "provision-failed", "%v", err)
			return
		}
		hs := h.Handshake(n, "first", chain)
		h.Quiesce()
		if hs.Err != nil || loc.Pattern(n) != "v1" {
			h.Violation("C04.setup", "authentic-first-load-failed", "the authentic first version was not accepted: %v", hs.Err)
			return
		}
		loc.Cur = 1
		h.Settle(10*time.Minute + 40*time.Second)
		inForceForged("after-refresh")
		// a second tick and a handshake whose chain contains the forged signer (the client certificate): the
		// 'signature failed last time, try the new chain' path must not let it in either
		hs2 := h.Handshake(n, "second", chain)
		h.Settle(10*time.Minute + 40*time.Second)
		inForceForged("after-second-refresh")
		_ = hs2
	}
	h.R.Sample = map[string]any{"case": desc, "path": path, "authentic": authentic, "backend": backend}
	h.Cleanup(n)
	_ = crypto.SHA256
}

func c04class(desc string) string {
	f := strings.Fields(desc)
	if len(f) == 0 {
		return "?"
	}
	if f[0] == "bitflip" {
		return "bitflip"
	}
	if f[0] == "alg" && len(f) > 1 {
		return "alg:" + f[1]
	}
	return f[0]
}

// c04withdrawnSigner: a configured CRL signed by the configured trusted signer T is accepted; the validator is stopped
// and provisioned again on the same work_dir WITHOUT T in its configuration while the origin serves a newer list signed
// by T. Nobody entitles T any more: that list must not come into force (Provision may fail instead).
func c04withdrawnSigner(h *Harness, aki int, backend string) {
	sc := h.R.Scenario
	w := NewWorld(h, WorldOpts{Intermediate: h.Idx%3 == 0})
	T := NewCA(nil, CAOpts{CN: "x", SubjectOf: w.A})
	loc := w.NewLocation(LocOpts{Name: "L1", URL: "http://crl.sim/a.crl", Issuer: w.A, NVers: 2, Extra: 2, Width: 8, AKI: akiDefault})
	for k := range loc.Versions {
		d := *loc.Versions[k]
		d.Signer, d.SignerKey, d.AKI, d.AutoAlg = T, nil, aki, true
		d.Build()
		loc.Versions[k] = &d
	}
	desc := fmt.Sprintf("signer=trusted-then-withdrawn aki=%d", aki)
	sc["case"], sc["path"], sc["backend"], sc["authentic"] = desc, "reprovision-without-signer", backend, false
	h.R.NonTrivial, h.R.Config = true, "faulty"
	cfg := NodeCfg{Mode: "crl_only", Storage: backend, UpdateInterval: "10m", SigMode: "verify", CDPStrict: true,
		CRLUrls: []string{loc.URL}, TrustedSigFiles: []string{h.WriteFile("trust/t.pem", CertPEM(T.Cert))}}
	n := h.NewNode("n1", cfg)
	if err := h.Provision(n); err != nil {
		h.Probe("authentic-rejected-at-provision")
		h.R.Sample = map[string]any{"case": desc, "provision": "failed"}
		return
	}
	h.Quiesce()
	sc["pattern_first"] = loc.Pattern(n)
	h.Cleanup(n)
	h.Settle(6 * time.Minute)
	loc.Cur = 1
	cfg2 := cfg
	cfg2.TrustedSigFiles = nil
	m := h.NewNodeOn("n1r", cfg2, n.WorkDir)
	err := h.Provision(m)
	h.Quiesce()
	sc["reprovision_err"] = err != nil
	h.R.Checks++
	if err == nil {
		p := loc.Pattern(m)
		sc["pattern_after"] = p
		if p == "v2" || strings.HasPrefix(p, "other") {
			h.Violation("C04.unauthentic-in-force", "signer=trusted-withdrawn:reprovision", "after a restart WITHOUT the trusted signer in the configuration a newly fetched list signed by that signer came into force (pattern %s, backend %s): nobody entitles that certificate to sign the CRL any more", p, backend)
		}
		h.Settle(10*time.Minute + 40*time.Second)
		if p := loc.Pattern(m); p == "v2" {
			h.Violation("C04.unauthentic-in-force", "signer=trusted-withdrawn:refresh-after-reprovision", "one refresh period after the restart without the trusted signer the list signed by it is in force (backend %s)", backend)
		}
	}
	h.R.Sample = map[string]any{"case": desc, "backend": backend, "reprovision_failed": err != nil}
	h.Cleanup(m)
}
