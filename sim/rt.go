package verifsim

import (
	"bytes"
	"fmt"
	"runtime"
	"sort"
	"strconv"
	"sync"
	"sync/atomic"
	"testing/synctest"
	"time"

	"github.com/gr33nbl00d/caddy-revocation-validator/verifhook"
)

// ---------------------------------------------------------------------------------------------
// Scheduler runtime: implements verifhook.Runtime. One task runs at a time; which one is decided
// by the tape. Tasks are real goroutines parked on their own channel at every decision point.
// ---------------------------------------------------------------------------------------------

const (
	kStart = iota // freshly spawned, has not run yet
	kHit          // ordinary statement boundary (preempted, or woke up while not current)
	kLock         // about to Lock/RLock
	kOs           // about to perform an os.* operation
	kNet          // about to perform a RoundTrip
	kCrash        // reached the requested crash point
)

var kindNames = []string{"start", "hit", "lock", "os", "net", "crash"}

type Task struct {
	Key       string
	Node      string
	goid      uint64
	rel       chan int // 0 = go on, 1 = die
	parked    bool
	kind      int
	site      int
	lock      any
	write     bool
	done      bool
	dying     bool
	client    bool
	hits      int
	delays    int // window delays already spent on this task
	holds     int // lock holds already spent on this task
	stallStep int // > 0: not enabled before the scheduler's step counter reaches this value

	blockedSince time.Time // first moment the task was found disabled (zero: not blocked)
	blockedStep  int       // scheduler step at that moment (orders tasks blocked at the same instant)
	disabled     bool
	stallUntil   time.Time
	quiet        bool     // do not trace scheduling of this task (observation probes)
	acq          []acqRec // recent lock acquisitions (for deadlock diagnosis only)
	panicVal     any
	panicStack   string
	onDone       func()
}

type acqRec struct {
	mu    any
	write bool
	step  int
}

type preemptPoint struct {
	Key string `json:"k"`
	N   int    `json:"n"`
}

type Sim struct {
	mu     sync.Mutex
	tasks  []*Task
	goids  []uint64
	gtasks []*Task

	current atomic.Pointer[Task]
	last    *Task
	prefer  *Task
	wake    chan struct{}

	tape *Tape
	seed uint64

	// preemption
	pPre        uint64 // threshold out of 1<<32 for hash-derived preemption
	explicitPre bool
	preSet      []preemptPoint
	firedPre    []preemptPoint
	pSwitchNum  int // scheduler picks a non-default task with probability pSwitchNum/100
	// Window delays: a task that has just given up a lock ("unlocked" sites) is, at a per-run subset of those sites
	// (1 in pDelayDen, a pure function of the seed and the site), held back for delayFor of simulated time while every
	// other task runs on. Uniform preemption almost never keeps a task parked long enough for another task to finish
	// a whole critical section in the gap between two of its own; this does.
	pDelayDen int
	delayFor  time.Duration
	// Lock holds: the dual. At a per-run subset (1 in pHoldDen) of the statements that directly follow a Lock/RLock, a
	// task is held back for holdFor while it HOLDS the lock: everybody else meets a busy lock for as long as they can
	// run (code that treats "busy" as "somebody else is doing my work", TryLock shortcuts, needs exactly this).
	pHoldDen int
	holdFor  time.Duration
	// nodes whose tasks may wait at a lock for ever without that being called a deadlock: a scenario that makes a party
	// of that node hang for good (an origin that never answers) names the node here
	noDeadlockNode map[string]bool
	statMu         sync.Mutex
	stallSteps     int // > 0: half of the window delays are measured in scheduling steps of the other tasks (1..stallSteps)
	pStallNum      int // probability (per 1000) that an enabled task is stalled for a quantum
	writerPending  bool

	spawnKeys []string
	spawnCnt  []int
	toks      []string
	tokNodes  []string

	start     time.Time
	steps     int
	switches  int
	fp        uint64   // schedule fingerprint
	trace     []string // tail of the trace
	traceH    uint64   // running hash of the whole trace
	traceN    int
	traceOn   bool
	traceAll  bool
	deadlockB time.Duration

	// crash-point machinery
	hitCount   int64 // counted Hits (inside crash scope)
	crashAtHit int64 // park the hitting task with kCrash when hitCount reaches this (0: off)
	crashScope func(site int) bool
	crashTask  *Task

	stats map[string]int
	disk  *Disk
	net   *Net
}

func goid() uint64 {
	var buf [64]byte
	n := runtime.Stack(buf[:], false)
	b := buf[10:n] // "goroutine 123 ["
	i := bytes.IndexByte(b, ' ')
	id, _ := strconv.ParseUint(string(b[:i]), 10, 64)
	return id
}

func NewSim(seed uint64, tape *Tape) *Sim {
	s := &Sim{wake: make(chan struct{}, 1), tape: tape, seed: seed, stats: map[string]int{},
		deadlockB: 2 * time.Hour, writerPending: true, pSwitchNum: 30}
	s.start = time.Now()
	return s
}

//go:norace
func (s *Sim) Now() time.Duration { return time.Since(s.start) }

//go:norace
func (s *Sim) self() *Task {
	g := goid()
	raceDisable()
	s.mu.Lock()
	var t *Task
	for i := len(s.goids) - 1; i >= 0; i-- {
		if s.goids[i] == g {
			t = s.gtasks[i]
			break
		}
	}
	s.mu.Unlock()
	raceEnable()
	return t
}

//go:norace
func (s *Sim) register(key, node string, client bool) *Task {
	g := goid()
	raceDisable()
	s.mu.Lock()
	n := 0
	for i := range s.spawnKeys {
		if s.spawnKeys[i] == key {
			s.spawnCnt[i]++
			n = s.spawnCnt[i]
		}
	}
	if n == 0 {
		s.spawnKeys = append(s.spawnKeys, key)
		s.spawnCnt = append(s.spawnCnt, 1)
		n = 1
	}
	t := &Task{Key: key + "#" + strconv.Itoa(n), Node: node, goid: g, rel: make(chan int), client: client}
	s.goids = append(s.goids, g)
	s.gtasks = append(s.gtasks, t)
	s.tasks = append(s.tasks, t)
	s.mu.Unlock()
	raceEnable()
	return t
}

//go:norace
func (s *Sim) unregister(t *Task) {
	raceDisable()
	s.mu.Lock()
	for i := range s.goids {
		if s.gtasks[i] == t {
			s.goids = append(s.goids[:i], s.goids[i+1:]...)
			s.gtasks = append(s.gtasks[:i], s.gtasks[i+1:]...)
			break
		}
	}
	s.mu.Unlock()
	raceEnable()
}

//go:norace
func (s *Sim) signal() {
	raceDisable()
	select {
	case s.wake <- struct{}{}:
	default:
	}
	raceEnable()
}

// park blocks the calling task until the scheduler releases it.
//
//go:norace
func (s *Sim) park(t *Task, kind, site int) {
	t.kind, t.site = kind, site
	t.parked = true
	s.signal()
	raceDisable()
	v := <-t.rel
	raceEnable()
	if v == 1 {
		t.dying = true
		s.die(t)
	}
}

//go:norace
func (s *Sim) die(t *Task) {
	t.done = true
	s.unregister(t)
	s.signal()
	runtime.Goexit()
}

//go:norace
func (s *Sim) isCurrent(t *Task) bool {
	return s.current.Load() == t
}

//go:norace
func (s *Sim) shouldPreempt(t *Task) bool {
	if s.explicitPre {
		for i := range s.preSet {
			if s.preSet[i].N == t.hits && s.preSet[i].Key == t.Key {
				return true
			}
		}
		return false
	}
	if s.pPre == 0 {
		return false
	}
	return mix64(s.seed, t.Key, uint64(t.hits))&0xffffffff < s.pPre
}

//go:norace
func (s *Sim) Hit(site int) {
	t := s.self()
	if t == nil || t.done {
		return
	}
	if t.dying {
		s.die(t)
	}
	t.hits++
	if s.crashScope != nil && s.crashScope(site) {
		n := atomic.AddInt64(&s.hitCount, 1)
		if s.crashAtHit != 0 && n == s.crashAtHit && s.crashTask == nil {
			s.crashTask = t
			s.park(t, kCrash, site)
			return
		}
	}
	if s.pDelayDen > 0 && !t.quiet && t.delays < 2 && site >= 0 && site < len(verifhook.Sites) && verifhook.Sites[site].Kind == "unlocked" &&
		mix64(s.seed^0xd1a7, verifhook.Sites[site].File, uint64(verifhook.Sites[site].Line))%uint64(s.pDelayDen) == 0 {
		t.delays++
		if h2 := mix64(s.seed^0x57a1, verifhook.Sites[site].File, uint64(verifhook.Sites[site].Line)+uint64(t.hits)<<20); s.stallSteps > 0 && h2&1 == 1 {
			// held back for a number of OTHER tasks' scheduling steps rather than for simulated time: the others are
			// then caught in the middle of what they are doing (a store half switched, a map half copied)
			t.stallStep = s.steps + 1 + int((h2>>8)%uint64(s.stallSteps))
			s.stat("step-stall-after-unlock")
			s.tracef("stall %s for %d steps after unlock @%s", shortKey(t.Key), t.stallStep-s.steps, s.siteStr(site))
		} else {
			t.stallUntil = time.Now().Add(s.delayFor)
			s.stat("delay-after-unlock")
			s.tracef("delay %s for %v after unlock @%s", shortKey(t.Key), s.delayFor, s.siteStr(site))
		}
		s.park(t, kHit, site)
		return
	}
	if s.pHoldDen > 0 && !t.quiet && t.holds < 2 && site >= 0 && site < len(verifhook.Sites) && verifhook.Sites[site].Kind == "locked" &&
		mix64(s.seed^0x401d, verifhook.Sites[site].File, uint64(verifhook.Sites[site].Line))%uint64(s.pHoldDen) == 0 {
		t.holds++
		t.stallUntil = time.Now().Add(s.holdFor)
		s.stat("hold-after-lock")
		s.tracef("hold %s for %v after lock @%s", shortKey(t.Key), s.holdFor, s.siteStr(site))
		s.park(t, kHit, site)
		return
	}
	if s.isCurrent(t) {
		if !s.shouldPreempt(t) {
			return
		}
		s.firedPre = append(s.firedPre, preemptPoint{t.Key, t.hits})
	}
	s.park(t, kHit, site)
}

//go:norace
func (s *Sim) BeforeLock(mu any, write bool, site int) {
	t := s.self()
	if t == nil || t.done {
		return
	}
	if t.dying {
		s.die(t)
	}
	switch m := mu.(type) {
	case **sync.Mutex:
		mu = *m
	case **sync.RWMutex:
		mu = *m
	}
	t.lock, t.write = mu, write
	s.park(t, kLock, site)
	t.lock = nil
	t.acq = append(t.acq, acqRec{mu, write, s.steps})
	if len(t.acq) > 32 {
		t.acq = append(t.acq[:0], t.acq[16:]...)
	}
}

//go:norace
func (s *Sim) Spawn(site int) uint64 {
	t := s.self()
	pk, node := "?", ""
	if t != nil {
		pk, node = t.Key, t.Node
	}
	name := "go" + strconv.Itoa(site)
	if site >= 0 && site < len(verifhook.Sites) {
		st := verifhook.Sites[site]
		name = shortFunc(st.Func) + ":" + strconv.Itoa(st.Line)
	}
	raceDisable()
	s.mu.Lock()
	s.toks = append(s.toks, pk+">"+name)
	s.tokNodes = append(s.tokNodes, node)
	n := uint64(len(s.toks))
	s.mu.Unlock()
	raceEnable()
	return n
}

func shortFunc(f string) string {
	for i := len(f) - 1; i >= 0; i-- {
		if f[i] == ':' {
			return f[i+1:]
		}
	}
	return f
}

//go:norace
func (s *Sim) Adopt(tok uint64) {
	if tok == 0 {
		return
	}
	raceDisable()
	s.mu.Lock()
	key := s.toks[tok-1]
	node := s.tokNodes[tok-1]
	s.mu.Unlock()
	raceEnable()
	// keep keys bounded: a long chain of tick-spawned goroutines would otherwise grow without limit
	if len(key) > 120 {
		key = "…" + key[len(key)-110:]
	}
	t := s.register(key, node, false)
	s.park(t, kStart, -1)
}

//go:norace
func (s *Sim) TaskEnd() {
	t := s.self()
	if t == nil {
		return
	}
	if r := recover(); r != nil {
		// not reached: recover only works in the deferred function itself; kept for clarity
		_ = r
	}
	t.done = true
	s.unregister(t)
	if s.isCurrent(t) {
		s.current.Store(nil)
	}
	s.signal()
}

// Go starts a harness client task on behalf of node.
//
//go:norace
func (s *Sim) Go(node, key string, f func()) *Task {
	ch := make(chan *Task, 1)
	go func() {
		t := s.register(key, node, true)
		ch <- t
		s.park(t, kStart, -1)
		defer func() {
			if r := recover(); r != nil {
				buf := make([]byte, 16<<10)
				n := runtime.Stack(buf, false)
				t.panicVal = r
				t.panicStack = string(buf[:n])
			}
			t.done = true
			s.unregister(t)
			if s.isCurrent(t) {
				s.current.Store(nil)
			}
			s.signal()
		}()
		f()
	}()
	return <-ch
}

// -------------------------------------------------------------------------------- scheduling

//go:norace
func (s *Sim) lockBusy(t *Task) bool {
	raceDisable()
	defer raceEnable()
	switch m := t.lock.(type) {
	case *sync.Mutex:
		if m.TryLock() {
			m.Unlock()
			return false
		}
		return true
	case *sync.RWMutex:
		if t.write {
			if m.TryLock() {
				m.Unlock()
				return false
			}
			return true
		}
		if m.TryRLock() {
			m.RUnlock()
			return false
		}
		return true
	}
	return false
}

type schedView struct {
	parked      []*Task
	enabled     []*Task
	stepStalled bool // some parked task is only waiting for other tasks' steps
}

//go:norace
func (s *Sim) view() schedView {
	var v schedView
	raceDisable()
	s.mu.Lock()
	for _, t := range s.tasks {
		if t.parked && !t.done {
			v.parked = append(v.parked, t)
		}
	}
	// forget finished tasks
	j := 0
	for _, t := range s.tasks {
		if !t.done {
			s.tasks[j] = t
			j++
		}
	}
	for k := j; k < len(s.tasks); k++ {
		s.tasks[k] = nil
	}
	s.tasks = s.tasks[:j]
	s.mu.Unlock()
	raceEnable()
	sort.Slice(v.parked, func(i, j int) bool { return v.parked[i].Key < v.parked[j].Key })
	now := time.Now()
	// writers that have already been found waiting block new readers of the same lock (Go's RWMutex rule)
	var pendingW []any
	if s.writerPending {
		for _, t := range v.parked {
			if t.kind == kLock && t.write && !t.blockedSince.IsZero() {
				if _, ok := t.lock.(*sync.RWMutex); ok {
					pendingW = append(pendingW, t.lock)
				}
			}
		}
	}
	for _, t := range v.parked {
		en := true
		if t.kind == kLock {
			if s.lockBusy(t) {
				en = false
			} else if !t.write {
				for _, m := range pendingW {
					if m == t.lock {
						en = false
					}
				}
			}
			t.disabled = !en
			if !en {
				if t.blockedSince.IsZero() {
					t.blockedSince = now
					t.blockedStep = s.steps
				}
			} else if !t.write {
				// readers forget; a writer keeps its stamp until it actually runs, so that it keeps
				// holding back new readers exactly as a waiting Lock() does
				t.blockedSince = time.Time{}
			}
		}
		if en && !t.stallUntil.IsZero() {
			if now.Before(t.stallUntil) {
				en = false
			} else {
				t.stallUntil = time.Time{}
			}
		}
		if en && t.stallStep > 0 {
			if s.steps < t.stallStep {
				en = false
				v.stepStalled = true
			} else {
				t.stallStep = 0
			}
		}
		if en {
			v.enabled = append(v.enabled, t)
		}
	}
	return v
}

//go:norace
func (s *Sim) release(t *Task, code int) {
	t.parked = false
	t.blockedSince = time.Time{}
	if code == 0 {
		s.current.Store(t)
		if s.last != t {
			s.switches++
		}
		s.last = t
	}
	raceDisable()
	t.rel <- code
	raceEnable()
}

//go:norace
func (s *Sim) tracef(format string, a ...any) {
	if !s.traceOn {
		return
	}
	line := fmt.Sprintf("%6d t=%-12v ", s.steps, s.Now()) + fmt.Sprintf(format, a...)
	raceDisable()
	s.mu.Lock()
	h := s.traceH
	for i := 0; i < len(line); i++ {
		h = (h ^ uint64(line[i])) * 1099511628211
	}
	s.traceH = (h ^ 0xff) * 1099511628211
	s.traceN++
	s.trace = append(s.trace, line)
	if !s.traceAll && len(s.trace) > 400 {
		s.trace = append(s.trace[:0], s.trace[len(s.trace)-200:]...)
	}
	s.mu.Unlock()
	raceEnable()
}

func (s *Sim) siteStr(site int) string {
	if site < 0 || site >= len(verifhook.Sites) {
		return "-"
	}
	st := verifhook.Sites[site]
	return fmt.Sprintf("%s:%d(%s)", st.File, st.Line, shortFunc(st.Func))
}

type DeadlockError struct {
	Blocked []string // descriptions
	Funcs   []string // sorted function names of the blocked lock sites (signature)
}

func (d *DeadlockError) Error() string { return fmt.Sprintf("deadlock: %v", d.Blocked) }

type StepLimitError struct{ Steps int }

func (e *StepLimitError) Error() string { return fmt.Sprintf("step limit %d reached", e.Steps) }

var quanta = []time.Duration{time.Millisecond, 100 * time.Millisecond, 500 * time.Millisecond, time.Second, 5 * time.Second}

// Run drives the system until stop() holds (evaluated at quiescent scheduling points) or the
// simulated deadline passes. It returns a *DeadlockError when a task stays blocked on a lock for
// longer than the deadlock budget.
//
//go:norace
func (s *Sim) Run(stop func(v schedView) bool, deadline time.Duration) error {
	limit := s.steps + 400000
	for {
		raceDisable()
		synctest.Wait()
		raceEnable()
		if cur := s.current.Load(); cur != nil && !cur.parked {
			// blocked outside a hook (sleeping, waiting for a library goroutine): it will park at its next hook
			s.current.Store(nil)
		}
		v := s.view()
		if s.crashTask != nil {
			return nil // crash point reached; the caller handles it
		}
		if stop != nil && stop(v) {
			return nil
		}
		if s.steps > limit {
			return &StepLimitError{s.steps}
		}
		now := time.Now()
		// starvation / deadlock check
		for _, t := range v.parked {
			if t.kind == kLock && t.disabled && !t.blockedSince.IsZero() && now.Sub(t.blockedSince) > s.deadlockB && !s.noDeadlockNode[t.Node] {
				return s.deadlock(v)
			}
		}
		if len(v.enabled) > 0 {
			// occasionally stall one enabled task (slow thread) instead of running it
			if s.pStallNum > 0 && s.tape.Chance(s.pStallNum, 1000) {
				t := v.enabled[s.tape.Int(len(v.enabled))]
				t.stallUntil = now.Add(quanta[s.tape.Int(len(quanta))])
				s.stat("stall")
				s.tracef("stall %s", t.Key)
				continue
			}
			t := s.choose(v.enabled)
			s.steps++
			s.fp = (s.fp ^ mix64(uint64(t.site+7), t.Key, uint64(t.kind))) * 1099511628211
			if !t.quiet {
				s.tracef("run %s %s @%s", shortKey(t.Key), kindNames[t.kind], s.siteStr(t.site))
			}
			s.release(t, 0)
			continue
		}
		if v.stepStalled {
			// only step-stalled tasks are left: nobody can take the steps they are waiting for
			for _, t := range v.parked {
				t.stallStep = 0
			}
			continue
		}
		// nothing runnable: let simulated time pass until a task parks or the deadline
		rem := deadline - s.Now()
		if rem <= 0 {
			return nil
		}
		q := rem
		if len(v.parked) > 0 && q > 10*time.Minute {
			q = 10 * time.Minute // keep checking the deadlock budget
		}
		for _, t := range v.parked {
			if !t.stallUntil.IsZero() {
				if d := t.stallUntil.Sub(now); d > 0 && d < q {
					q = d
				}
			}
		}
		s.sleepOrWake(q)
	}
}

//go:norace
func (s *Sim) sleepOrWake(q time.Duration) {
	raceDisable()
	select {
	case <-s.wake:
	default:
	}
	tm := time.NewTimer(q)
	select {
	case <-s.wake:
		tm.Stop()
	case <-tm.C:
	}
	raceEnable()
}

//go:norace
func (s *Sim) choose(en []*Task) *Task {
	// default (tape value 0): keep running the task that ran last if it can; otherwise the first by key
	def := 0
	for i, t := range en {
		if t == s.last {
			def = i
		}
	}
	if s.prefer != nil {
		for _, t := range en {
			if t == s.prefer {
				return t
			}
		}
	}
	if len(en) == 1 {
		return en[0]
	}
	if s.tape.Chance(s.pSwitchNum, 100) {
		k := s.tape.Int(len(en))
		return en[k]
	}
	return en[def]
}

//go:norace
func (s *Sim) deadlock(v schedView) *DeadlockError {
	d := &DeadlockError{}
	// Diagnosis: the suspected holder of a mutex is the live task that acquired it most recently.
	// A task waiting for a mutex it is itself suspected to hold is a self-deadlock; otherwise cycles
	// of the waits-for graph are reported. Tasks merely queued behind those are listed, not signed.
	raceDisable()
	s.mu.Lock()
	all := append([]*Task(nil), s.tasks...)
	s.mu.Unlock()
	raceEnable()
	holder := func(mu any) *Task {
		var best *Task
		bs := -1
		for _, t := range all {
			if t.done {
				continue
			}
			for _, a := range t.acq {
				if a.mu == mu && a.step > bs {
					best, bs = t, a.step
				}
			}
		}
		return best
	}
	var blocked []*Task
	for _, t := range v.parked {
		if t.kind == kLock && t.disabled {
			blocked = append(blocked, t)
			d.Blocked = append(d.Blocked, fmt.Sprintf("%s blocked at %s since t=%v", shortKey(t.Key), s.siteStr(t.site), t.blockedSince.Sub(s.start)))
		}
	}
	fn := func(t *Task) string {
		if t.site >= 0 && t.site < len(verifhook.Sites) {
			return shortFunc(verifhook.Sites[t.site].Func)
		}
		return "?"
	}
	seen := map[string]bool{}
	add := func(x string) {
		if !seen[x] {
			seen[x] = true
			d.Funcs = append(d.Funcs, x)
		}
	}
	isBlocked := func(t *Task) bool {
		for _, b := range blocked {
			if b == t {
				return true
			}
		}
		return false
	}
	for _, t := range blocked {
		if holder(t.lock) == t {
			add("self:" + fn(t))
		}
	}
	if len(d.Funcs) == 0 {
		// cycles
		for _, t := range blocked {
			path := []*Task{t}
			cur := t
			for i := 0; i < 16; i++ {
				h := holder(cur.lock)
				if h == nil || !isBlocked(h) {
					break
				}
				if h == t {
					for _, p := range path {
						add(fn(p))
					}
					break
				}
				path = append(path, h)
				cur = h
			}
		}
	}
	if len(d.Funcs) == 0 {
		first := -1
		for _, t := range blocked {
			if first < 0 || t.blockedStep < first {
				first = t.blockedStep
			}
		}
		for _, t := range blocked {
			if t.blockedStep == first {
				add("first:" + fn(t))
			}
		}
	}
	sort.Strings(d.Funcs)
	return d
}

func shortKey(k string) string {
	if len(k) > 70 {
		return "…" + k[len(k)-60:]
	}
	return k
}

// Quiet reports whether nothing is parked and every client task has finished.
//
//go:norace
func (s *Sim) quiet(v schedView) bool {
	if len(v.parked) != 0 {
		return false
	}
	raceDisable()
	s.mu.Lock()
	defer func() { s.mu.Unlock(); raceEnable() }()
	for _, t := range s.tasks {
		if t.client && !t.done {
			return false
		}
	}
	return true
}

// KillNode terminates every task of a node (crash of that validator instance): parked tasks exit
// at once (deferred unlocks run), tasks blocked in sleeps or selects exit at their next hook.
//
//go:norace
func (s *Sim) KillNode(node string) {
	raceDisable()
	synctest.Wait()
	raceEnable()
	raceDisable()
	s.mu.Lock()
	var victims []*Task
	for _, t := range s.tasks {
		if t.done || (node != "" && t.Node != node) {
			continue
		}
		t.dying = true
		if t.parked {
			victims = append(victims, t)
		}
	}
	s.mu.Unlock()
	raceEnable()
	sort.Slice(victims, func(i, j int) bool { return victims[i].Key < victims[j].Key })
	for _, t := range victims {
		s.release(t, 1)
		raceDisable()
		synctest.Wait()
		raceEnable()
	}
	if s.crashTask != nil && (node == "" || s.crashTask.Node == node) {
		s.crashTask = nil
	}
	s.current.Store(nil)
}

// AliveTasks lists tasks of a node that have not finished.
//
//go:norace
func (s *Sim) AliveTasks(node string) []string {
	raceDisable()
	s.mu.Lock()
	defer func() { s.mu.Unlock(); raceEnable() }()
	var out []string
	for _, t := range s.tasks {
		if !t.done && (node == "" || t.Node == node) {
			out = append(out, t.Key)
		}
	}
	sort.Strings(out)
	return out
}

// stat counts an event. Tasks that wake from a sleep run beside the current task until their next hook, so counters
// are touched from several goroutines: one mutex, hidden from the race detector like the rest of the hand-off.
//
//go:norace
func (s *Sim) stat(name string) {
	raceDisable()
	s.statMu.Lock()
	s.stats[name]++
	s.statMu.Unlock()
	raceEnable()
}
