//go:build race

package verifsim

import "runtime"

const raceBuild = true

func raceDisable() { runtime.RaceDisable() }
func raceEnable()  { runtime.RaceEnable() }
