package verifsim

import (
	"crypto/x509/pkix"
	"math/big"
	"sync"

	"github.com/gr33nbl00d/caddy-revocation-validator/core"
	"github.com/gr33nbl00d/caddy-revocation-validator/crl/crlreader"
	"github.com/gr33nbl00d/caddy-revocation-validator/crl/crlstore"
)

// FaultyFactory sits in the seam the repository already has (Repository.Factory, an interface): every store the
// repository creates is wrapped, and a plan decides per method call whether it fails. This is the property's
// "staging-store create/insert error at step k" taken literally, for both backends, including TRANSIENT errors that
// the goleveldb layer cannot produce (its journal writer keeps failing after the first write error).
type FaultyFactory struct {
	Inner crlstore.Factory
	mu    sync.Mutex
	Plan  func(method string, temporary bool) error
	Fired int
	// failEmptyLookups: GetCertRevocationStatus fails with an I/O error on every store that holds no CRL (IsEmpty): the
	// store of an entry that was never loaded
	failEmptyLookups bool
}

func (f *FaultyFactory) plan(method string, temporary bool) error {
	f.mu.Lock()
	defer f.mu.Unlock()
	if f.Plan == nil {
		return nil
	}
	err := f.Plan(method, temporary)
	if err != nil {
		f.Fired++
	}
	return err
}

func (f *FaultyFactory) SetPlan(p func(method string, temporary bool) error) {
	f.mu.Lock()
	f.Plan = p
	f.mu.Unlock()
}

func (f *FaultyFactory) CreateStore(identifier string, temporary bool) (crlstore.CRLStore, error) {
	if err := f.plan("CreateStore", temporary); err != nil {
		return nil, err
	}
	s, err := f.Inner.CreateStore(identifier, temporary)
	if err != nil {
		return nil, err
	}
	return &faultyStore{CRLStore: s, f: f, temp: temporary}, nil
}

type faultyStore struct {
	crlstore.CRLStore
	f    *FaultyFactory
	temp bool
}

func (s *faultyStore) InsertRevokedCert(e *crlreader.CRLEntry) error {
	if err := s.f.plan("InsertRevokedCert", s.temp); err != nil {
		return err
	}
	return s.CRLStore.InsertRevokedCert(e)
}

func (s *faultyStore) StartUpdateCrl(i *crlreader.CRLMetaInfo) error {
	if err := s.f.plan("StartUpdateCrl", s.temp); err != nil {
		return err
	}
	return s.CRLStore.StartUpdateCrl(i)
}

func (s *faultyStore) UpdateExtendedMetaInfo(i *crlreader.ExtendedCRLMetaInfo) error {
	if err := s.f.plan("UpdateExtendedMetaInfo", s.temp); err != nil {
		return err
	}
	return s.CRLStore.UpdateExtendedMetaInfo(i)
}

func (s *faultyStore) UpdateSignatureCertificate(c *core.CertificateChainEntry) error {
	if err := s.f.plan("UpdateSignatureCertificate", s.temp); err != nil {
		return err
	}
	return s.CRLStore.UpdateSignatureCertificate(c)
}

func (s *faultyStore) UpdateCRLLocations(p *core.CRLLocations) error {
	if err := s.f.plan("UpdateCRLLocations", s.temp); err != nil {
		return err
	}
	return s.CRLStore.UpdateCRLLocations(p)
}

func (s *faultyStore) GetCertRevocationStatus(issuer *pkix.RDNSequence, serial *big.Int) (*core.RevocationStatus, error) {
	if err := s.f.plan("GetCertRevocationStatus", s.temp); err != nil {
		return nil, err
	}
	if s.f.failEmptyLookups && !s.temp && s.CRLStore.IsEmpty() {
		s.f.mu.Lock()
		s.f.Fired++
		s.f.mu.Unlock()
		return nil, ErrIO
	}
	return s.CRLStore.GetCertRevocationStatus(issuer, serial)
}

// Update hands the real stores to each other: the backends type-assert their argument.
func (s *faultyStore) Update(n crlstore.CRLStore) error {
	// "Update" in a plan speaks about the LIVE store (the receiver): the switch to the staged list fails before it
	// had any effect
	if err := s.f.plan("Update", s.temp); err != nil {
		return err
	}
	if w, ok := n.(*faultyStore); ok {
		n = w.CRLStore
	}
	return s.CRLStore.Update(n)
}

// unwrapStore returns the backend store behind a wrapper (for harness code that switches on the backend type).
func unwrapStore(s crlstore.CRLStore) crlstore.CRLStore {
	if w, ok := s.(*faultyStore); ok {
		return w.CRLStore
	}
	return s
}
