package verifsim

import (
	"crypto/x509"
	"fmt"
	"math/big"
	"strings"
	"time"

	"golang.org/x/crypto/ocsp"
)

// ---------------------------------------------------------------------------------------------
// C02 — OCSP soundness and AIA-strict semantics (scripted responders, fake clock, hit log).
// C05 — OCSP authenticity (Byzantine responder; two-step history: answer, then responder down).
// C14 — OCSP cache soundness (lifetime measured on the fake clock, key = issuer + serial).
// ---------------------------------------------------------------------------------------------

var ocspBehaviours = []string{rGood, rRevoked, rUnknown, oHTTP500, oGarbage, oDown, oStall, oTrunc, oWrongDoc, oEmpty}

func setBehaviour(r *Responder, b string) {
	r.Signer, r.RespStatus, r.OtherSer, r.Mutate = sIssuer, ocsp.Success, false, nil
	switch b {
	case rGood, rRevoked, rUnknown:
		r.State, r.Status = "answer", b
	default:
		r.State = b
	}
}

func behaviourAuthentic(b string) (bool, string) {
	switch b {
	case rGood, rRevoked, rUnknown:
		return true, b
	}
	return false, ""
}

func init() {
	register(&PropDef{ID: "C02", Plan: func(tier string) Plan {
		// grid: 2 responders x 10 behaviours each x strict x cache = 400 cells, enumerated completely in thorough
		if tier == "thorough" {
			return Plan{Runs: 400 + 2500, Enumerated: 400, Exhaustive: true, Level: "exploration", Rule: c02rule}
		}
		return Plan{Runs: 80 + 240, Enumerated: 80, Level: "exploration", Rule: c02rule}
	}, Run: runC02})
	register(&PropDef{ID: "C05", Plan: func(tier string) Plan {
		m := 2 * len(c05signers) * 2 * 3 * 2 // trusted-responder config x signer x serial x status x strict
		e := len(c05respStatus) * 2
		n := m + e + 60
		if tier == "thorough" {
			n = m + e + 700
		}
		return Plan{Runs: n, Enumerated: m + e, Exhaustive: true, Level: "fault_enumeration", Rule: "runs enumerate trusted_responder_certs_files in {empty, contains the issuing CA} x signer in {issuer, delegated responder with/without OCSPSigning EKU, the client's own certificate, stranger with/without embedded certificate, sibling CA} x serial in {this, other} x status in {good, revoked, unknown} x strict in {on, off}, then response status in {malformed, internalError, tryLater, sigRequired, unauthorized} x strict; the remaining runs flip one byte (position enumerated over the response in thorough, sampled in quick) of an authentic response; each case is a 2-step history: (1) responder answers with the case, (2) responder down; oracle: a non-authentic answer behaves exactly as no answer and nothing is cached; non-trivial = the response was not authentic"}
	}, Run: runC05})
	register(&PropDef{ID: "C14", Plan: func(tier string) Plan {
		n := 160
		if tier == "thorough" {
			n = 3000
		}
		return Plan{Runs: n, Level: "exploration", Rule: "one run = a fake-clock history: fill at t0 with a response whose nextUpdate is absent / past / t0+d, then 6-30 reads at a rate above or below the lifetime, the responder flipping good->revoked at a tape-chosen time, failed queries interleaved, optionally a twin certificate (same subject and serial, other issuer) and a second validator instance; oracle over the hit log: a verdict without a request at time t is legal only if an authentic answer for the same issuer and serial was fetched at tf with t <= tf + L, L = nextUpdate-tf+15min if nextUpdate>tf else the default duration; L = 0 => every handshake hits a responder; non-trivial = at least one verdict was served without a request or the responder flipped"}
	}, Run: runC14})
}

const c02rule = "enumerated runs: 2 responders x 10 behaviours each (good, revoked, unknown, HTTP 5xx with HTML, garbage, refused, stall-then-reset, truncated, wrong content, empty) x strict x cache duration in {0, >0}; further runs: 0-3 AIA URLs with mixed schemes (http, https, ldap, upper case), histories of 1-6 handshakes with clock advances and responder flips, modes ocsp_only / prefer_ocsp / prefer_crl / unset; oracle: reference evaluation over the responder hit log (first http(s) responder in AIA order that delivered an authentic answer decides; none: strict and at least one http(s) responder => reject, lenient => accept; a verdict without a hit must equal an authentic answer obtained earlier); non-trivial = at least one responder misbehaved or a verdict came from the cache"

type ocspHS struct {
	t       time.Duration
	verdict string
	hits    []*NetHit
}

func runC02(h *Harness) {
	tp := h.Tape
	sc := h.R.Scenario
	var behaviours [][]string // per handshake: behaviour of each responder
	var strict bool
	var cache string
	var urls []string
	nResp := 2
	nHS := 1
	mode := "ocsp_only"
	enum := 400
	if h.Tier != "thorough" {
		enum = 80
	}
	if h.Idx < enum {
		i := h.Idx
		if h.Tier != "thorough" {
			// quick: a fixed 20% sample of the grid, spread evenly
			i = h.Idx * 5
		}
		b1, b2 := ocspBehaviours[i%10], ocspBehaviours[(i/10)%10]
		strict = (i/100)%2 == 1
		cache = []string{"", "45s"}[(i/200)%2]
		behaviours = [][]string{{b1, b2}, {b1, b2}}
		nHS = 2
		urls = []string{"http://ocsp1.sim/", "https://ocsp2.sim/q"}
		sc["cell"] = fmt.Sprintf("%s,%s,strict=%v,cache=%q", b1, b2, strict, cache)
	} else {
		nResp = tp.Int(4)
		strict = tp.Chance(1, 2)
		cache = Pick(tp, "", "45s", "10m")
		mode = Pick(tp, "ocsp_only", "ocsp_only", "prefer_ocsp", "prefer_crl", "")
		nHS = 1 + tp.Int(6)
		for i := 0; i < nResp; i++ {
			urls = append(urls, Pick(tp, fmt.Sprintf("http://ocsp%d.sim/", i+1), fmt.Sprintf("https://ocsp%d.sim/x", i+1), fmt.Sprintf("HTTP://OCSP%d.SIM/", i+1), fmt.Sprintf("ldap://dir%d.sim/ocsp", i+1)))
		}
		for j := 0; j < nHS; j++ {
			var bs []string
			for i := 0; i < nResp; i++ {
				if j > 0 && tp.Chance(2, 3) {
					bs = append(bs, behaviours[j-1][i])
				} else {
					bs = append(bs, ocspBehaviours[tp.Int(len(ocspBehaviours))])
				}
			}
			behaviours = append(behaviours, bs)
		}
		sc["urls"], sc["strict"], sc["cache"], sc["mode"] = urls, strict, cache, mode
	}
	w := NewWorld(h, WorldOpts{Intermediate: tp.Chance(1, 2)})
	cfg := NodeCfg{Mode: mode, AIAStrict: strict, OCSPCache: cache, Storage: "memory", UpdateInterval: "10m"}
	n := h.NewNode("n1", cfg)
	if err := h.Provision(n); err != nil {
		h.Violation("C02.setup", "provision-failed", "%v", err)
		return
	}
	var resps []*Responder
	isHTTP := func(u string) bool { return strings.HasPrefix(strings.ToLower(u), "http") }
	for _, u := range urls {
		if isHTTP(u) {
			// the transport sees the URL as net/http normalises it (lower-case scheme and host)
			resps = append(resps, w.NewResponder(normURL(u), w.A))
		} else {
			resps = append(resps, nil)
		}
	}
	// answers are not always a few hundred bytes: in a third of the runs every responder's answers carry bulk
	bulk := 0
	if h.Idx%3 == 2 {
		bulk = []int{5000, 20000, 70000}[(h.Idx/3)%3]
		for _, r := range resps {
			if r != nil {
				r.Bulk = bulk
			}
		}
	}
	sc["bulk"] = bulk
	serial := big.NewInt(0x5151)
	// a sixth of the random runs present a certificate whose authority key identifier names a key no certificate of
	// the chain has: whether its issuer can be found at all is up to the code, but no verdict may come out of nothing
	foreignAKI := h.Idx >= enum && tp.Chance(1, 6)
	eo := EEOpts{Serial: serial, OCSP: urls, CDP: []string{}}
	if foreignAKI {
		eo.AKI = akiForeignKey
		h.R.NonTrivial = true
	}
	sc["foreign_aki"] = foreignAKI
	cert := w.A.Issue(eo)
	cacheDur, _ := time.ParseDuration(cache)
	var cachedStatus string
	var cachedAt, cachedL time.Duration
	haveCache := false
	var hist []string
	for j := 0; j < nHS; j++ {
		for i, r := range resps {
			if r != nil {
				setBehaviour(r, behaviours[j][i])
				if behaviours[j][i] != rGood {
					h.R.NonTrivial = true
				}
			}
		}
		hs := h.Handshake(n, fmt.Sprintf("hs%d", j), w.ChainFor(cert, w.A))
		h.Quiesce()
		verdict := errStr(hs.Err)
		hits := h.Net.Hits[hs.NetAt:hs.NetTo]
		h.R.Checks++
		// reference evaluation
		var decided, status string
		for i, u := range urls {
			if !isHTTP(u) {
				continue
			}
			if ok, st := behaviourAuthentic(behaviours[j][i]); ok {
				decided, status = u, st
				break
			}
		}
		nHTTP := 0
		for _, u := range urls {
			if isHTTP(u) {
				nHTTP++
			}
		}
		expect := "accept"
		if foreignAKI {
			// only what holds however the issuer lookup ends: strict never accepts without an authentic answer, and no
			// verdict is produced without asking anybody
			if strict && nHTTP > 0 && hs.Err == nil && (decided == "" || len(hits) == 0) {
				h.Violation("C02.strict-accept", "strict-no-answer:foreign-aki", "strict: the certificate's authority key identifier matches no certificate of the chain; %d request(s) were made, no authentic answer can have been verified, yet the handshake was accepted (responders %v)", len(hits), behaviours[j])
			}
			hist = append(hist, fmt.Sprintf("hs%d[foreign-aki]=%s", j+1, verdict))
			goto next
		}
		switch {
		case len(hits) == 0 && nHTTP > 0:
			// served without asking anybody: legal only from an authentic earlier answer
			h.R.NonTrivial = true
			if !haveCache {
				h.Violation("C02.cache-without-answer", "hitless-verdict", "handshake %d produced %s without contacting any responder, but no authentic answer was obtained before (history %v)", j+1, verdict, hist)
			} else {
				expect = map[string]string{rRevoked: "revoked"}[cachedStatus]
				if expect == "" {
					expect = "accept"
				}
				if verdict != expect {
					h.Violation("C02.cache-wrong-status", "cache-mismatch", "handshake %d was served from the cache with %s, the cached authentic answer was %s", j+1, verdict, cachedStatus)
				}
			}
			hist = append(hist, fmt.Sprintf("hs%d[cache]=%s", j+1, verdict))
			goto next
		case decided != "":
			if status == rRevoked {
				expect = "revoked"
			}
		case strict && nHTTP > 0:
			expect = "error"
		}
		if expect == "error" {
			if hs.Err == nil || isRevokedErr(hs.Err) {
				h.Violation("C02.strict-accept", "strict-no-answer:"+verdict, "strict: no responder delivered an authentic answer (%v) but the handshake returned %s", behaviours[j], verdict)
			}
		} else if verdict != expect {
			class := "wrong-verdict"
			switch {
			case expect == "revoked":
				class = "revoked-missed"
			case expect == "accept" && decided == "" && !strict:
				class = "lenient-deny"
			case expect == "accept" && decided != "":
				class = "good-answer-denied"
			}
			h.Violation("C02.verdict", class, "handshake %d: responders %v behaved %v (strict=%v): expected %s, got %s", j+1, urls, behaviours[j], strict, expect, verdict)
		}
		// responders after the deciding one must not be needed; responders before it must have been asked
		if decided != "" {
			haveCache = cacheDur > 0
			cachedStatus, cachedAt, cachedL = status, h.S.Now(), cacheDur
		}
		hist = append(hist, fmt.Sprintf("hs%d%v=%s", j+1, behaviours[j], verdict))
	next:
		_ = cachedAt
		_ = cachedL
		if j+1 < nHS {
			d := Pick(tp, time.Second, 10*time.Second, 50*time.Second, 11*time.Minute)
			if h.Idx < enum {
				d = time.Second
			}
			h.Settle(d)
			if haveCache && h.S.Now()-cachedAt > cachedL {
				haveCache = false // may or may not still be served (C14 decides the bound); not relied upon here
				cachedStatus = ""
			}
		}
		if len(h.R.Violations) > 0 {
			break
		}
	}
	// several clients at once: different certificates, each with its own responder and its own answer (one of them slow),
	// checked concurrently under seeded preemption. Every handshake follows the answer given for ITS certificate.
	if len(h.R.Violations) == 0 && h.Idx >= enum && tp.Chance(1, 2) {
		h.S.pPre = uint64(Pick(tp, 100, 300, 500)) * (1 << 32) / 1000
		h.S.stallSteps, h.S.pDelayDen, h.S.delayFor = Pick(tp, 0, 30), Pick(tp, 0, 4), 2*time.Second
		for round := 0; round < 3 && len(h.R.Violations) == 0; round++ {
			k := 2 + tp.Int(3)
			var calls []*HS
			var want []string
			for i := 0; i < k; i++ {
				r := w.NewResponder(fmt.Sprintf("http://ocsp-conc%d-%d.sim/", round, i), w.A)
				r.Status = Pick(tp, rRevoked, rGood, rRevoked)
				r.Slow = Pick(tp, 0, time.Second, 3*time.Second)
				r.Bulk = Pick(tp, 0, 0, 3000)
				c := w.A.Issue(EEOpts{Serial: big.NewInt(int64(0x6000 + 16*round + i)), OCSP: []string{r.URL}, CDP: []string{}})
				want = append(want, map[string]string{rRevoked: "revoked", rGood: "accept"}[r.Status])
				calls = append(calls, h.StartHandshake(n, fmt.Sprintf("conc%d.%d", round, i), w.ChainFor(c, w.A)))
			}
			var ts []*Task
			for _, x := range calls {
				ts = append(ts, x.Task)
			}
			h.Wait(ts...)
			h.R.NonTrivial = true
			for i, x := range calls {
				h.R.Checks++
				if v := errStr(x.Err); v != want[i] {
					h.Violation("C02.verdict", "concurrent:"+map[bool]string{true: "revoked-missed", false: "good-answer-denied"}[want[i] == "revoked"], "%d certificates were checked at the same time, each against its own responder; the one whose responder answered authentically '%s' got %s (strict=%v)", k, want[i], v, strict)
					break
				}
			}
		}
	}
	h.R.Sample = map[string]any{"urls": urls, "strict": strict, "cache": cache, "history": hist}
	h.Cleanup(n)
}

func normURL(u string) string {
	i := strings.Index(u, "://")
	if i < 0 {
		return u
	}
	rest := u[i+3:]
	host, path := rest, ""
	if j := strings.Index(rest, "/"); j >= 0 {
		host, path = rest[:j], rest[j:]
	}
	return strings.ToLower(u[:i]) + "://" + host + path
}

// ------------------------------------------------------------------------------------------ C05

var c05signers = []string{sIssuer, sDelegated, sDelegatedNoE, sDelegatedAny, sDelegatedOth, sDelegatedMix, sClientCert, sClientBare, sStrangerEmb, sStrangerBare, sSibling, sLookalike, sLookalikeBare}
var c05respStatus = []ocsp.ResponseStatus{ocsp.Malformed, ocsp.InternalError, ocsp.TryLater, ocsp.SignatureRequired, ocsp.Unauthorized}

func runC05(h *Harness) {
	tp := h.Tape
	sc := h.R.Scenario
	m0 := len(c05signers) * 2 * 3 * 2
	m := 2 * m0
	e := len(c05respStatus) * 2
	trustedIssuer := h.Idx%2 == 1
	w := NewWorld(h, WorldOpts{Intermediate: false})
	resp := w.NewResponder("http://ocsp.sim/", w.A)
	serial := big.NewInt(0x77aa)
	// most client certificates carry an authority key identifier but no subject key identifier of their own
	cert, key := w.A.IssueWithKey(EEOpts{Serial: serial, OCSP: []string{resp.URL}, CDP: []string{}, NoSKI: h.Idx%5 != 0})
	resp.ClientCert, resp.ClientKey = cert, key
	strict := true
	status := rGood
	desc := ""
	switch {
	case h.Idx < m:
		i := h.Idx % m0
		trustedIssuer = h.Idx >= m0
		resp.Signer = c05signers[i%len(c05signers)]
		i /= len(c05signers)
		resp.OtherSer = i%2 == 1
		i /= 2
		status = []string{rGood, rRevoked, rUnknown}[i%3]
		i /= 3
		strict = i%2 == 0
		desc = fmt.Sprintf("signer=%s other-serial=%v status=%s", resp.Signer, resp.OtherSer, status)
	case h.Idx < m+e:
		i := h.Idx - m
		resp.RespStatus = c05respStatus[i%len(c05respStatus)]
		strict = (i/len(c05respStatus))%2 == 0
		desc = "response-status=" + resp.RespStatus.String()
	default:
		// byte mutation of an authentic response
		status = Pick(tp, rGood, rRevoked)
		k := h.Idx - m - e
		pos := -1
		if h.Tier != "thorough" {
			pos = -2 - tp.Int(1<<20) // sampled position
		} else {
			pos = k
		}
		bit := byte(1 << uint(tp.Int(8)))
		resp.Mutate = func(der []byte) []byte {
			p := pos
			if p < 0 {
				p = (-p) % len(der)
			} else {
				p = p % len(der)
			}
			out := append([]byte(nil), der...)
			out[p] ^= bit
			sc["mutated_at"] = p
			return out
		}
		strict = tp.Chance(3, 4)
		desc = fmt.Sprintf("byte-flip status=%s", status)
	}
	resp.Status = status
	sc["case"], sc["strict"] = desc, strict
	cfg := NodeCfg{Mode: "ocsp_only", AIAStrict: strict, OCSPCache: "10m"}
	// half of the cases run with the issuing CA also listed in trusted_responder_certs_files (redundant but legal):
	// that must not widen what counts as an authorised responder
	if trustedIssuer {
		cfg.OCSPTrusted = []string{h.WriteFile("trust/issuer.pem", CertPEM(w.A.Cert))}
		desc += " +issuer-in-trusted-responders"
		sc["case"] = desc
	}
	n := h.NewNode("n1", cfg)
	if err := h.Provision(n); err != nil {
		h.Violation("C05.setup", "provision-failed", "%v", err)
		return
	}
	// the answers signed by the sibling CA (the issuer's name, another key) come after a PAST in which this validator
	// has dealt with that CA legitimately: a certificate the sibling itself issued, authentically answered 'good'.
	// Whatever the validator remembers about "the CA of that name" must not carry over to the other key.
	if resp.Signer == sSibling {
		respS := w.NewResponder("http://ocsp-sibling.sim/", w.Sib)
		certS := w.Sib.Issue(EEOpts{Serial: big.NewInt(0x51b), OCSP: []string{respS.URL}, CDP: []string{}})
		if x := h.Handshake(n, "met-the-sibling-ca", w.ChainFor(certS, w.Sib)); x.Err != nil {
			h.Probe("sibling-ca-certificate-denied")
		}
		h.Quiesce()
		desc += " +sibling-ca-met-before"
		sc["case"] = desc
	}
	// step 1: the responder answers with the case
	hs1 := h.Handshake(n, "hs1", w.ChainFor(cert, w.A))
	h.Quiesce()
	ans := resp.Last
	authentic := ans != nil && ans.Authentic
	if resp.Mutate != nil && ans != nil {
		// a flipped byte may leave the response authentic only if it still parses and verifies for this
		// certificate under the issuer: decide with the reference parser
		authentic = referenceOCSPAuthentic(h.Net.Hits[len(h.Net.Hits)-1].D.Body, cert, w.A.Cert)
	}
	if !authentic {
		h.R.NonTrivial = true
	}
	v1 := errStr(hs1.Err)
	// step 2: responder down — reveals whether anything was cached
	resp.State = oDown
	hs2 := h.Handshake(n, "hs2", w.ChainFor(cert, w.A))
	v2 := errStr(hs2.Err)
	h.R.Checks += 2
	sc["v1"], sc["v2"], sc["authentic"] = v1, v2, authentic
	sigClass := strings.SplitN(desc, " ", 2)[0]
	if authentic {
		want := "accept"
		if status == rRevoked && resp.Mutate == nil {
			want = "revoked"
		}
		if resp.Mutate == nil && v1 != want {
			h.Violation("C05.authentic-ignored", "authentic-ignored:"+sigClass, "authentic answer (%s): expected %s, got %s", desc, want, v1)
		}
	} else {
		// behaves as no answer
		if strict {
			if hs1.Err == nil || isRevokedErr(hs1.Err) {
				h.Violation("C05.unauthentic-decides", "strict:"+sigClass+":"+v1, "strict: a non-authentic answer (%s) was treated as an answer: handshake returned %s", desc, v1)
			}
			if hs2.Err == nil || isRevokedErr(hs2.Err) {
				h.Violation("C05.unauthentic-cached", "cached:"+sigClass+":"+v2, "a non-authentic answer (%s) was cached: with the responder down the strict handshake returned %s", desc, v2)
			}
		} else {
			if hs1.Err != nil {
				h.Violation("C05.unauthentic-decides", "lenient:"+sigClass+":"+v1, "lenient: a non-authentic answer (%s) rejected the certificate: %s", desc, v1)
			}
			if hs2.Err != nil {
				h.Violation("C05.unauthentic-cached", "cached-lenient:"+sigClass+":"+v2, "a non-authentic answer (%s) was cached: with the responder down the lenient handshake returned %s", desc, v2)
			}
		}
	}
	v3 := "-"
	if !authentic {
		// step 3: the responder is back and answers authentically 'revoked'. Whatever the non-authentic answer (or
		// the outage) left behind must not stand in the way: a cached soft-fail verdict would accept here.
		resp.State, resp.Signer, resp.Status, resp.OtherSer, resp.RespStatus, resp.Mutate = "answer", sIssuer, rRevoked, false, ocsp.Success, nil
		hs3 := h.Handshake(n, "hs3", w.ChainFor(cert, w.A))
		v3 = errStr(hs3.Err)
		h.R.Checks++
		sc["v3"] = v3
		if !isRevokedErr(hs3.Err) {
			h.Violation("C05.unauthentic-cached", "shadows-authentic:"+sigClass+":"+v3, "after a non-authentic answer (%s) and an outage, the issuer's authentic 'revoked' answer was not honoured: handshake returned %s (strict=%v)", desc, v3, strict)
		}
	}
	// one OCSP front end for two CAs that share a name: a certificate of the sibling CA with the SAME serial is checked
	// while the query for the first certificate is still in flight at the same URL. The answer signed by the other CA is
	// not an answer for it, whatever the validator shares between queries in flight.
	if len(h.R.Violations) == 0 && h.Idx%4 == 3 {
		const shared = "http://ocsp-frontend.sim/"
		ra := w.NewResponder("http://unused-a.sim/", w.A)
		rs := w.NewResponder("http://unused-s.sim/", w.Sib)
		w.ShareURL(shared, ra, rs)
		ra.Status, ra.Slow = rGood, 3*time.Second
		rs.Status = rRevoked
		s2 := big.NewInt(0x7a7a)
		ca := w.A.Issue(EEOpts{Serial: s2, OCSP: []string{shared}, CDP: []string{}})
		cs := w.Sib.Issue(EEOpts{Serial: s2, OCSP: []string{shared}, CDP: []string{}})
		ha := h.StartHandshake(n, "frontend-a", w.ChainFor(ca, w.A))
		h.S.Run(func(v schedView) bool { return ra.Hits > 0 || ha.Task.done }, h.S.Now()+time.Minute)
		hb := h.StartHandshake(n, "frontend-sibling", w.ChainFor(cs, w.Sib))
		h.Wait(ha.Task, hb.Task)
		h.R.Checks += 2
		if !isRevokedErr(hb.Err) {
			h.Violation("C05.unauthentic-decides", "in-flight:sibling-issuer-same-serial:"+errStr(hb.Err), "a certificate of the sibling CA (its own answer: 'revoked') checked while the query for the same serial under the other CA was in flight at the same responder URL returned %s: the answer that decided was signed by the wrong CA", errStr(hb.Err))
		}
		if ha.Err != nil {
			h.Violation("C05.authentic-ignored", "in-flight:first-query:"+errStr(ha.Err), "the slow, authentic 'good' answer for the first certificate ended in %s", errStr(ha.Err))
		}
	}
	// the same subject and serial under ANOTHER CA, one after the other: the first certificate's authentic 'good' is
	// remembered (ocsp cache 10m); the second certificate is a different certificate, issued by another key (a CA that
	// was re-keyed under its old name, or a CA of another name; the leaves with or without an authority key
	// identifier), and its own issuer says 'revoked'. What was remembered for the first is no answer for the second.
	if len(h.R.Violations) == 0 && h.Idx%4 != 3 {
		other, otherName, aki := w.Sib, "same-name-ca", akiDefault
		switch h.Idx % 4 {
		case 1:
			other, otherName, aki = w.B, "other-name-ca", akiAbsent
		case 2:
			aki = akiAbsent
		}
		akiName := map[int]string{akiDefault: "aki-keyid", akiAbsent: "no-aki"}[aki]
		r1 := w.NewResponder("http://ocsp-twin-a.sim/", w.A)
		r2 := w.NewResponder("http://ocsp-twin-o.sim/", other)
		r1.Status, r2.Status = rGood, rRevoked
		s3 := big.NewInt(0x3c3c)
		c1 := w.A.Issue(EEOpts{CN: "twin", Serial: s3, OCSP: []string{r1.URL}, CDP: []string{}, AKI: aki})
		c2 := other.Issue(EEOpts{CN: "twin", Serial: s3, OCSP: []string{r2.URL}, CDP: []string{}, AKI: aki})
		t1 := h.Handshake(n, "twin-first", w.ChainFor(c1, w.A))
		h.Quiesce()
		t2 := h.Handshake(n, "twin-under-other-ca", w.ChainFor(c2, other))
		h.R.Checks += 2
		if t1.Err != nil {
			h.Violation("C05.authentic-ignored", "twin-first:"+errStr(t1.Err), "the authentic 'good' answer for the first of two certificates with the same subject and serial ended in %s", errStr(t1.Err))
		} else if !isRevokedErr(t2.Err) {
			h.Violation("C05.unauthentic-decides", "remembered-for-other-issuer:"+otherName+":"+akiName+":"+errStr(t2.Err), "a certificate with the subject and serial of one checked before, but issued by another CA (%s, leaves %s) whose responder says 'revoked', returned %s (responder of its issuer asked %d times): the answer signed by the first certificate's issuer decided", otherName, akiName, errStr(t2.Err), r2.Hits)
		}
	}
	h.R.Sample = map[string]any{"case": desc, "strict": strict, "authentic": authentic, "hs1": v1, "hs2(responder down)": v2, "hs3(authentic revoked)": v3}
	h.Cleanup(n)
}

// referenceOCSPAuthentic: successful response, signature valid under the issuer or an embedded
// issuer-signed responder with the OCSPSigning EKU (x/crypto/ocsp checks both when given the issuer),
// and a status for exactly this serial.
func referenceOCSPAuthentic(body []byte, cert, issuer *x509.Certificate) bool {
	r, err := ocsp.ParseResponseForCert(body, cert, issuer)
	if err != nil {
		return false
	}
	return r.SerialNumber != nil && r.SerialNumber.Cmp(cert.SerialNumber) == 0
}

// ------------------------------------------------------------------------------------------ C14

func runC14(h *Harness) {
	tp := h.Tape
	sc := h.R.Scenario
	def := Pick(tp, "", "40s", "2m", "1h", "6h") // defaults shorter AND longer than the nextUpdate windows below
	defD, _ := time.ParseDuration(def)
	nu := Pick(tp, time.Duration(0), time.Duration(0), -time.Hour, 3*time.Minute, 20*time.Minute, -5*time.Minute, -14*time.Minute, -30*time.Second)
	strict := tp.Chance(3, 4)
	twin := tp.Chance(1, 3)
	twoNodes := tp.Chance(1, 4)
	reads := 6 + tp.Int(25)
	sc["default"], sc["nextUpdate"], sc["strict"], sc["twin"], sc["nodes2"], sc["reads"] = def, nu.String(), strict, twin, twoNodes, reads
	w := NewWorld(h, WorldOpts{})
	resp := w.NewResponder("http://ocsp.sim/a", w.A)
	respB := w.NewResponder("http://ocsp.sim/b", w.B)
	resp.NextUpdate = nu
	cfg := NodeCfg{Mode: "ocsp_only", AIAStrict: strict, OCSPCache: def}
	nodes := []*Node{h.NewNode("n1", cfg)}
	defs := []time.Duration{defD}
	if twoNodes {
		// the second instance of the process may be configured with another default duration: what it may serve
		// without asking is a matter of ITS configuration
		cfg2 := cfg
		if tp.Chance(1, 2) {
			def2 := Pick(tp, "", "40s", "2m", "1h", "6h")
			cfg2.OCSPCache = def2
			sc["default_n2"] = def2
		}
		d2, _ := time.ParseDuration(cfg2.OCSPCache)
		defs = append(defs, d2)
		nodes = append(nodes, h.NewNode("n2", cfg2))
	}
	for _, n := range nodes {
		if err := h.Provision(n); err != nil {
			h.Violation("C14.setup", "provision-failed", "%v", err)
			return
		}
	}
	serial := big.NewInt(0x4242)
	certA := w.A.Issue(EEOpts{CN: "same-subject", Serial: serial, OCSP: []string{resp.URL}, CDP: []string{}})
	certB := w.B.Issue(EEOpts{CN: "same-subject", Serial: serial, OCSP: []string{respB.URL}, CDP: []string{}}) // same subject DN and serial, other issuer
	// lifetime of an authentic answer fetched at tf
	lifetime := func(d time.Duration) time.Duration {
		if nu > 0 {
			return nu + 15*time.Minute
		}
		return d
	}
	L := lifetime(defD)
	quantum := L / 3
	if tp.Chance(1, 3) || quantum == 0 {
		quantum = Pick(tp, 7*time.Second, 50*time.Second, 6*time.Minute)
	}
	flipAt := 1 + tp.Int(reads)
	type fetch struct {
		t      time.Duration
		status string
		node   int
		key    string
	}
	// every authentic answer fetched in this run. Which of them an instance may serve without asking does not depend on
	// whether the instances of the process share a cache or keep their own: anything fetched (by whomever) at or after
	// the serving instance's own latest fetch, within the lifetime that the SERVING instance's configuration gives it
	var fetches []*fetch
	candidates := func(ni int, key string) (cands []*fetch) {
		var own *fetch
		for _, f := range fetches {
			if f.key == key && f.node == ni {
				own = f
			}
		}
		for _, f := range fetches {
			if f.key == key && (own == nil || f.t >= own.t) {
				cands = append(cands, f)
			}
		}
		return
	}
	var hist []string
	for i := 0; i < reads; i++ {
		if i == flipAt {
			resp.Status = rRevoked
			h.R.NonTrivial = true
			hist = append(hist, "flip->revoked")
		}
		// occasionally the responder fails for one read
		failing := i != 0 && tp.Chance(1, 6)
		if failing {
			resp.State = Pick(tp, oDown, oGarbage, oHTTP500)
		} else {
			resp.State = "answer"
		}
		ni := tp.Int(len(nodes))
		n := nodes[ni]
		L := lifetime(defs[ni]) // of the instance that serves this read
		useTwin := twin && i > 0 && tp.Chance(1, 4)
		cert, iss, rsp := certA, w.A, resp
		if useTwin {
			cert, iss, rsp = certB, w.B, respB
			respB.State = oDown // the twin's responder is down: any decisive answer must have come from somewhere else
		}
		hs := h.Handshake(n, fmt.Sprintf("r%d", i), w.ChainFor(cert, iss))
		h.Quiesce()
		now := h.S.Now()
		hits := h.Net.Hits[hs.NetAt:hs.NetTo]
		v := errStr(hs.Err)
		h.R.Checks++
		key := iss.Name
		if len(hits) == 0 {
			h.R.NonTrivial = true
			cands := candidates(ni, key)
			var live []*fetch
			for _, f := range cands {
				if now <= f.t+L {
					live = append(live, f)
				}
			}
			switch {
			case len(cands) == 0:
				h.Violation("C14.wrong-certificate", map[bool]string{true: "twin-served-from-cache", false: "hitless-without-fetch"}[useTwin], "read %d at t=%v: verdict %s for the certificate issued by %s was produced without a request, but no authentic answer for that issuer+serial was ever fetched (history %v)", i, now, v, iss.Name, hist)
			case L == 0:
				h.Violation("C14.zero-duration-cached", "zero-duration", "read %d on %s: verdict without a request although this instance may cache nothing (its default duration is 0, no usable nextUpdate)", i, n.Name)
			case len(live) == 0:
				f := cands[len(cands)-1]
				h.Violation("C14.lifetime-exceeded", "lifetime-exceeded", "read %d on %s at t=%v was served without a request; the most recent authentic answer was fetched at t=%v: the lifetime %v that this instance's configuration gives it is exceeded by %v (reads every %v; history %v)", i, n.Name, now, f.t, L, now-f.t-L, quantum, hist)
			default:
				ok := false
				var have []string
				for _, f := range live {
					want := "accept"
					if f.status == rRevoked {
						want = "revoked"
					}
					have = append(have, f.status)
					if v == want {
						ok = true
					}
				}
				if !ok {
					h.Violation("C14.cache-wrong-status", "cache-mismatch", "read %d served %s without a request; the answers it may have been served from were %v", i, v, have)
				}
			}
			hist = append(hist, fmt.Sprintf("t=%v cache:%s", now.Round(time.Second), v))
		} else {
			if rsp.State == "answer" && !useTwin {
				fetches = append(fetches, &fetch{now, rsp.Status, ni, key})
				want := "accept"
				if rsp.Status == rRevoked {
					want = "revoked"
				}
				if v != want {
					h.Violation("C14.fresh-answer-ignored", "fresh-mismatch", "read %d fetched a fresh authentic answer %s but returned %s", i, rsp.Status, v)
				}
			} else {
				// failed query: must not be cached — the next hit-less verdict would be flagged by the rules above
				// because last[key] still points at the previous authentic fetch (or nothing)
				cands := candidates(ni, key)
				if strict && (hs.Err == nil || isRevokedErr(hs.Err)) && len(cands) == 0 {
					h.Violation("C14.failed-query-decides", "failed-query", "read %d: the only responder failed (%s) but the strict handshake returned %s", i, rsp.State, v)
				}
				// a failed query while the last authentic answer is past its lifetime: that answer must not be what decides
				// (strict: no answer => deny; lenient: no answer => OCSP does not reject)
				allExpired := len(cands) > 0
				for _, f := range cands {
					if now <= f.t+L {
						allExpired = false
					}
				}
				if allExpired {
					f := cands[len(cands)-1]
					stale := "accept"
					if f.status == rRevoked {
						stale = "revoked"
					}
					none := map[bool]string{true: "error", false: "accept"}[strict]
					got := v
					if strings.HasPrefix(got, "error(") {
						got = "error"
					}
					if got != none && got == stale {
						h.Violation("C14.lifetime-exceeded", "stale-served-on-outage", "read %d at t=%v: every responder failed (%s) and the last authentic answer (%s, fetched at t=%v) was %v past its lifetime %v, yet the verdict is %s — the expired answer decided (strict=%v; history %v)", i, now, rsp.State, f.status, f.t, now-f.t-L, L, v, strict, hist)
					}
				}
			}
			hist = append(hist, fmt.Sprintf("t=%v fetch(%s):%s", now.Round(time.Second), rsp.State, v))
		}
		if len(h.R.Violations) > 0 {
			break
		}
		h.Settle(quantum)
	}
	// two certificates with the same subject and serial from different issuers, presented AT THE SAME TIME: the first
	// one's responder is slow, the second one's answers 'revoked' at once. Whatever the validator shares between
	// handshakes in flight, each certificate gets the answer that was obtained for it.
	if len(h.R.Violations) == 0 && tp.Chance(1, 2) {
		s2 := big.NewInt(0x4343)
		cA := w.A.Issue(EEOpts{CN: "same-subject", Serial: s2, OCSP: []string{resp.URL}, CDP: []string{}})
		cB := w.B.Issue(EEOpts{CN: "same-subject", Serial: s2, OCSP: []string{respB.URL}, CDP: []string{}})
		resp.State, resp.Status, resp.Slow, resp.Hits = "answer", rGood, 3*time.Second, 0
		respB.State, respB.Status = "answer", rRevoked
		n := nodes[0]
		hsA := h.StartHandshake(n, "twin-a", w.ChainFor(cA, w.A))
		h.S.Run(func(v schedView) bool { return resp.Hits > 0 || hsA.Task.done }, h.S.Now()+time.Minute)
		hsB := h.StartHandshake(n, "twin-b", w.ChainFor(cB, w.B))
		h.Wait(hsA.Task, hsB.Task)
		resp.Slow = 0
		h.R.Checks += 2
		h.R.NonTrivial = true
		if !isRevokedErr(hsB.Err) {
			h.Violation("C14.wrong-certificate", "twin-served-from-a-query-in-flight", "a certificate of issuer B (its responder answers 'revoked') presented while the query for a certificate of issuer A with the same subject and serial was in flight returned %s", errStr(hsB.Err))
		}
		if hsA.Err != nil {
			h.Violation("C14.wrong-certificate", "twin-in-flight:first-handshake:"+errStr(hsA.Err), "the slow query for the certificate of issuer A (answer 'good') ended in %s while a twin certificate of issuer B was being checked", errStr(hsA.Err))
		}
		hist = append(hist, "concurrent twins: a="+errStr(hsA.Err)+" b="+errStr(hsB.Err))
	}
	// an answer past its lifetime while its renewal is in flight: a 'good' with nextUpdate in 3 minutes (lifetime 18
	// minutes), read again inside the lifetime, then - past the lifetime - the responder says 'revoked' and is slow: the
	// handshake that renews it waits for the answer, and a second handshake for the same certificate arrives meanwhile.
	// The expired 'good' decides for neither of them.
	if len(h.R.Violations) == 0 && tp.Chance(1, 2) {
		n := nodes[0]
		respR := w.NewResponder("http://ocsp.sim/renewal", w.A)
		respR.NextUpdate, respR.Status = 3*time.Minute, rGood
		cR := w.A.Issue(EEOpts{CN: "renewed", Serial: big.NewInt(0x5252), OCSP: []string{respR.URL}, CDP: []string{}})
		first := h.Handshake(n, "renewal-fill", w.ChainFor(cR, w.A))
		inside := Pick(tp, 5*time.Minute, 10*time.Minute, 17*time.Minute)
		h.Settle(inside)
		again := h.Handshake(n, "renewal-read-inside-lifetime", w.ChainFor(cR, w.A))
		// 30 s to 5 min past the lifetime, and less than a lifetime after the last read (a cache that slides its
		// expiry on every read still holds the entry)
		h.Settle(18*time.Minute - inside + Pick(tp, 30*time.Second, 5*time.Minute))
		respR.Status, respR.Slow = rRevoked, Pick(tp, 3*time.Second, 8*time.Second)
		hits := respR.Hits
		hsA := h.StartHandshake(n, "renewal-a", w.ChainFor(cR, w.A))
		h.S.Run(func(v schedView) bool { return respR.Hits > hits || hsA.Task.done }, h.S.Now()+time.Minute)
		hsB := h.StartHandshake(n, "renewal-b", w.ChainFor(cR, w.A))
		h.Wait(hsA.Task, hsB.Task)
		respR.Slow = 0
		h.R.Checks += 2
		h.R.NonTrivial = true
		if first.Err == nil && again.Err == nil {
			for name, x := range map[string]*HS{"the renewing handshake": hsA, "a second handshake arriving while the renewal was in flight": hsB} {
				if x.Err == nil {
					h.Violation("C14.lifetime-exceeded", "expired-served-during-renewal", "an answer 'good' whose lifetime (nextUpdate + 15 min) had ended 30 s to 5 min before was what decided for %s: the responder says 'revoked' (slow answer), the handshake was accepted (strict=%v)", name, strict)
					break
				}
			}
		}
		hist = append(hist, "renewal in flight: a="+errStr(hsA.Err)+" b="+errStr(hsB.Err))
	}
	if len(hist) > 14 {
		hist = append(hist[:14], "...")
	}
	h.R.Sample = map[string]any{"default": def, "nextUpdate": nu.String(), "every": quantum.String(), "history": hist}
	for _, n := range nodes {
		h.Cleanup(n)
	}
}
