package verifsim

import (
	"crypto/x509"
	"fmt"
	"math/big"
	"os"
	"strings"
	"time"
)

// ---------------------------------------------------------------------------------------------
// CRL history explorer, shared by C01, C10, C11 (and feeding C04/C16 style invariants).
//
// A run is a tape-drawn history of events over one or two validators and two or three CRL
// locations (different issuers with overlapping serial spaces, different intake sources):
//
//	handshake(cert) | tick | origin(L) := state | restart(node) | advance
//
// After every event the validator is *observed* with pure probes (which versions of which location
// answer), and every handshake verdict is checked against what was observed before and after it.
// Nothing here demands that the validator accept a CRL: only what it may and may not answer,
// given what it shows to be in force.
// ---------------------------------------------------------------------------------------------

type histCfg struct {
	prop       string
	strictBias int // per cent of runs with crl_cdp_strict on
	withOCSP   bool
	faulty     bool
	histLen    int
}

type hLoc struct {
	*Location
	source    string // cdp | url | file
	file      string
	cdp       []string // the distribution-point set every certificate of this location carries (one identifier per location)
	cdpKind   string
	neverGood bool             // the origin of this location never serves a CRL
	published map[int][]string // forms in which each version was ever published
}

type hNode struct {
	*Node
	gen int
}

type observation map[string]locObs

type locObs struct {
	S      []int // versions whose only-probe answers revoked
	Common bool
	Never  bool
	Err    string
}

func (o locObs) inForce() bool { return len(o.S) > 0 || o.Common }

func (o locObs) String() string {
	if o.Err != "" {
		return "err"
	}
	return fmt.Sprintf("S=%v c=%v n=%v", o.S, o.Common, o.Never)
}

type histRun struct {
	digitNames bool                               // issuer names A/B end in "2"/"24"
	onDisk     map[string]map[string]map[int]bool // work_dir -> location -> versions ever observed in force there
	h          *Harness
	w          *World
	cfg        histCfg
	locs       []*hLoc
	nodes      []*hNode
	ncfg       []NodeCfg
	events     []string
	ocsp       map[string]string // responder URL -> state
	sig        string
	strict     []bool
	own        func(oracle string) bool
	resp       map[*CA]*Responder
}

func (r *histRun) observe(n *hNode) observation {
	obs := observation{}
	if n.Repo() == nil {
		return obs
	}
	for _, l := range r.locs {
		var o locObs
		probe := func(s *big.Int) bool {
			rv, err := r.h.PureProbeCert(n.Node, l.ProbeCert(s))
			r.h.R.Checks++
			if err != nil {
				o.Err = err.Error()
				return false
			}
			return rv
		}
		o.Common = probe(l.Common)
		for k, s := range l.OnlyV {
			if probe(s) {
				o.S = append(o.S, k)
			}
		}
		for _, s := range l.Never {
			if probe(s) {
				o.Never = true
			}
		}
		obs[l.Name] = o
		// what was ever observed in force on this work_dir (a disk store outlives the instance)
		if r.onDisk == nil {
			r.onDisk = map[string]map[string]map[int]bool{}
		}
		if r.onDisk[n.WorkDir] == nil {
			r.onDisk[n.WorkDir] = map[string]map[int]bool{}
		}
		if r.onDisk[n.WorkDir][l.Name] == nil {
			r.onDisk[n.WorkDir][l.Name] = map[int]bool{}
		}
		for _, k := range o.S {
			r.onDisk[n.WorkDir][l.Name][k] = true
		}
	}
	return obs
}

// listedOnDisk: does a version that was observed in force on this node's work_dir at some earlier point (possibly by a
// previous instance) list the certificate? A restarted instance answers from the stored list the moment it learns the
// location again, and a background refresh may replace that list before the handshake is over: neither the
// observation before nor the one after the handshake then shows the list that answered.
func (r *histRun) listedOnDisk(n *hNode, issuer *CA, serial *big.Int) bool {
	for _, l := range r.locs {
		if l.Issuer != issuer {
			continue
		}
		for k := range r.onDisk[n.WorkDir][l.Name] {
			if l.Lists(k, serial) {
				return true
			}
		}
	}
	return false
}

// listed: does any version observed in force, at a location of the certificate's issuer, list serial?
func (r *histRun) listed(obs observation, issuer *CA, serial *big.Int) bool {
	for _, l := range r.locs {
		if l.Issuer != issuer {
			continue
		}
		o := obs[l.Name]
		for _, k := range o.S {
			if l.Lists(k, serial) {
				return true
			}
		}
	}
	return false
}

func (r *histRun) viol(oracle, sig, format string, a ...any) {
	if r.own != nil && !r.own(oracle) {
		r.h.Probe("foreign-oracle:" + oracle)
		return
	}
	r.h.Violation(oracle, sig, "%s | history: %s", fmt.Sprintf(format, a...), strings.Join(r.events, " ; "))
}

// invariants that hold after every event
func (r *histRun) checkObs(n *hNode, obs observation, when string) {
	verify := r.sig == "" || r.sig == "verify"
	for _, l := range r.locs {
		o := obs[l.Name]
		if o.Err != "" {
			if !r.cfg.faulty {
				r.viol("C11.probe-error", "probe-error", "node %s: pure probe for %s failed in a fault-free run: %s", n.Name, l.Name, o.Err)
			}
			continue
		}
		if o.Never {
			r.viol("C11.unlisted-revoked", "never-probe:"+l.source, "%s: node %s reports a serial revoked that no version of %s ever listed (obs %v)", when, n.Name, l.Name, o)
		}
		if len(o.S) > 1 {
			r.viol("C11.superseded-in-force", "multi-version:"+l.source, "%s: node %s answers from entries of more than one version of %s at once (obs %v): entries of a superseded list outlive their replacement", when, n.Name, l.Name, o)
		}
		if o.Common != (len(o.S) > 0) {
			r.viol("C11.partial-list", "partial:"+l.source, "%s: node %s answers from a list of %s that is not one complete version (obs %v)", when, n.Name, l.Name, o)
		}
		for _, k := range o.S {
			if !l.everAcceptable(k, verify) {
				r.viol("C11.rejected-in-force", "rejected-in-force:"+l.source, "%s: node %s answers from entries of %s.v%d, which was only ever published in a form that must be rejected (damaged, unsupported critical extension%s) — published forms: %v", when, n.Name, l.Name, k+1, map[bool]string{true: ", or not authentic under signature mode verify", false: ""}[verify], l.published[k])
			}
		}
	}
}

// everAcceptable: was version k ever published in a form the validator may accept?
func (l *hLoc) everAcceptable(k int, verify bool) bool {
	for _, f := range l.published[k] {
		switch f {
		case "authentic":
			return true
		case "badsig", "stranger", "sibling":
			if !verify {
				return true
			}
		}
	}
	return false
}

func (l *hLoc) markPublished() {
	if l.published == nil {
		l.published = map[int][]string{}
	}
	form := ""
	switch {
	case l.State == oGood && l.Variant == "":
		form = "authentic"
	case l.State == oGood:
		form = l.Variant
	case l.State == oTrunc || l.State == oReset:
		form = "damaged"
	default:
		return
	}
	for _, f := range l.published[l.Cur] {
		if f == form {
			return
		}
	}
	l.published[l.Cur] = append(l.published[l.Cur], form)
}

func (r *histRun) publish(l *hLoc) {
	l.markPublished()
	if l.source == "file" {
		switch l.State {
		case oGood:
			os.WriteFile(l.file, l.Doc().Bytes, 0600)
		case oGarbage:
			os.WriteFile(l.file, []byte("this is not a CRL at all, just some text\n"), 0600)
		case oTrunc:
			b := l.Doc().Bytes
			os.WriteFile(l.file, b[:len(b)/2], 0600)
		case oEmpty:
			os.WriteFile(l.file, nil, 0600)
		default: // down and friends: the file is gone
			os.Remove(l.file)
		}
	}
}

func runCRLHistory(h *Harness, cfg histCfg) {
	tp := h.Tape
	r := &histRun{h: h, cfg: cfg, ocsp: map[string]string{}, own: ownsOracle}
	sc := h.R.Scenario
	backend := Pick(tp, "memory", "disk", "")
	mode := Pick(tp, "crl_only", "", "prefer_crl", "prefer_ocsp")
	if !cfg.withOCSP {
		mode = "crl_only"
	}
	r.sig = Pick(tp, "verify", "", "verify", "none", "verify_log")
	fetch := Pick(tp, "", "fetch_actively", "fetch_background")
	strict := tp.Int(100) < cfg.strictBias
	nnodes := 1 + tp.Weighted(3, 1)
	pre := Pick(tp, 0, 0, 20)
	h.S.pPre = uint64(pre) * (1 << 32) / 1000
	h.S.pDelayDen, h.S.delayFor = Pick(tp, 0, 0, 0, 8), 2*time.Second
	faulty := cfg.faulty && tp.Chance(1, 2)
	if faulty {
		h.R.Config = "faulty"
	}
	r.cfg.faulty = faulty
	dnA, dnB := Pick(tp, 0, 0, 1, 2, 3, 4, 5, 6, 7), Pick(tp, 0, 0, 1, 2, 3, 4, 5)
	if dnA == 6 {
		dnB = 6 // the two issuing CAs' names then differ in one UTF-8 continuation byte only
	}
	if dnA == 7 {
		dnB = 7 // A's name string ends in "2", B's in "24": (B, s) and (A, "4"+s) must stay different certificates
	}
	r.digitNames = dnA == 7
	sc["dn"] = fmt.Sprintf("%d/%d", dnA, dnB)
	w := NewWorld(h, WorldOpts{Intermediate: tp.Chance(1, 2), RSA: tp.Chance(1, 6), DNShapeA: dnA, DNShapeB: dnB})
	r.w = w
	sc["backend"], sc["mode"], sc["sig"], sc["fetch"], sc["strict"], sc["nodes"], sc["pre"] = backend, mode, r.sig, fetch, strict, nnodes, pre

	// locations
	mk := func(name, url string, iss *CA, base uint32, source string) *hLoc {
		extra := Pick(tp, 0, 2, 30, 300)
		if h.Tier == "thorough" {
			extra = Pick(tp, 0, 2, 30, 300, 2, 30, 3000)
			if tp.Chance(1, 60) {
				extra = 12000 // (one instrumented 60000-entry history costs minutes of wall clock; the full-list audits cover 17000)
			}
		}
		width := Pick(tp, 8, 1, 2, 20, 13)
		if base > 0 && width < 4 {
			width = 9
		}
		l := w.NewLocation(LocOpts{Name: name, URL: url, Issuer: iss, NVers: 3, Extra: extra, Width: width, PEM: tp.Chance(1, 3), CRLF: tp.Chance(1, 6),
			EntryExt: tp.Chance(1, 3), AKI: Pick(tp, akiDefault, akiAbsent, akiDefault, akiBoth), Base: base})
		l.Chunk = Pick(tp, 0, 0, 1, 7, 100, 4096)
		hl := &hLoc{Location: l, source: source}
		if source == "cdp" {
			hl.cdpKind = Pick(tp, "own", "own", "mixed", "two")
			switch hl.cdpKind {
			case "own":
				hl.cdp = []string{l.URL}
			case "mixed":
				hl.cdp = []string{"ldap://dir.sim/cn=crl,o=sim", l.URL}
			case "two":
				hl.cdp = []string{"http://dead.sim/" + name + ".crl", l.URL}
			}
		}
		r.locs = append(r.locs, hl)
		return hl
	}
	l1 := mk("L1", "http://crl.sim/a.crl", w.A, 0, "cdp")
	src2 := Pick(tp, "cdp", "url", "file")
	l2 := mk("L2", "http://crl2.sim/b.crl", w.B, 1, src2)
	var l3 *hLoc
	if tp.Chance(1, 2) {
		l3 = mk("L3", "https://crl3.sim/a2.crl", w.A, 2, Pick(tp, "cdp", "url"))
	}
	// OCSP side ("whatever OCSP answered"): one responder per issuer; its behaviour is redrawn before every handshake
	var respA, respB *Responder
	if cfg.withOCSP && mode != "crl_only" {
		respA = w.NewResponder("http://ocsp.sim/a", w.A)
		respB = w.NewResponder("http://ocsp.sim/b", w.B)
		r.resp = map[*CA]*Responder{w.A: respA, w.B: respB}
	}
	// a location whose URL differs from L1's only in the letter case of the path: a different resource (RFC 3986),
	// here one that mostly fails to deliver a CRL (and has its own content when it does). It must not be mistaken for L1.
	var lc *hLoc
	if tp.Chance(1, 2) {
		// (letter case of the path, a query string, a path parameter: all of them select another resource)
		lc = mk("L1c", Pick(tp, "http://crl.sim/A.CRL", "http://crl.sim/a.crl?ca=2", "http://crl.sim/a.crl;v=2", "http://crl.sim/a.crl?ca=2&fmt=der"), w.A, 3, "cdp")
		lc.cdpKind, lc.cdp = "own", []string{lc.URL}
		l1.cdpKind, l1.cdp = "own", []string{l1.URL} // certificates of both name exactly one distribution point
		lc.State = Pick(tp, oDown, oHTTP404, oGarbage)
		lc.neverGood = true
	}
	// twin serials: what L1 lists under issuer A is presented under issuer B and vice versa
	sc["l2src"] = src2
	trusted := []string{h.WriteFile("trust/a.pem", CertPEM(w.A.Cert)), h.WriteFile("trust/b.pem", CertPEM(w.B.Cert))}
	for i := 0; i < nnodes; i++ {
		c := NodeCfg{Mode: mode, Storage: backend, UpdateInterval: "10m", SigMode: r.sig, FetchMode: fetch, CDPStrict: strict, TrustedSigFiles: trusted, NoOCSPConfig: !cfg.withOCSP}
		for _, l := range r.locs {
			switch l.source {
			case "url":
				c.CRLUrls = append(c.CRLUrls, l.URL)
			case "file":
				l.file = h.WriteFile("files/"+l.Name+".crl", l.Doc().Bytes)
				c.CRLFiles = append(c.CRLFiles, l.file)
			}
		}
		r.ncfg = append(r.ncfg, c)
	}
	for _, l := range r.locs {
		r.publish(l)
	}
	for i := 0; i < nnodes; i++ {
		n := &hNode{Node: h.NewNode(fmt.Sprintf("n%d", i+1), r.ncfg[i])}
		if err := h.Provision(n.Node); err != nil {
			// a fault-free provision with acceptable configured CRLs must succeed (C15/C16 own this); for the
			// history properties the run simply cannot proceed
			r.h.Probe("provision-failed")
			r.viol("C16.provision", "provision-failed:"+r.sig+":"+fetch, "provisioning with acceptable configured CRLs failed: %v", err)
			return
		}
		r.nodes = append(r.nodes, n)
	}
	h.Quiesce()
	for _, n := range r.nodes {
		r.checkObs(n, r.observe(n), "after provision")
	}

	originStates := []string{oGood, oGood, oDown, oGarbage, oHTTP500, oTrunc, oEmpty, oWrongDoc}
	variants := []string{"", "", "badsig", "stranger", "sibling", "critext", "indirect"}
	setOrigin := func(l *hLoc, state string, cur int, variant string) {
		l.State, l.Cur, l.Variant = state, cur, variant
		r.publish(l)
		r.events = append(r.events, fmt.Sprintf("origin(%s):=%s v%d %s", l.Name, l.State, l.Cur+1, l.Variant))
		if l.State != oGood || l.Variant != "" {
			h.R.NonTrivial = true
		}
	}
	// motifs: short scripted prefixes that put the system into the states the property is about
	// (a fault right before a first load, a rejected list followed by an accepted one, ...)
	var script []func()
	motif := tp.Weighted(5, 2, 2, 2, 2, 2)
	sc["motif"] = motif
	cdpLocs := []*hLoc{}
	for _, l := range r.locs {
		if l.source == "cdp" {
			cdpLocs = append(cdpLocs, l)
		}
	}
	ml := cdpLocs[tp.Int(len(cdpLocs))]
	mn := r.nodes[0]
	_ = mn
	switch motif {
	case 1: // a list that must be rejected is fetched first, then an acceptable different version
		k := tp.Int(3)
		j := (k + 1 + tp.Int(2)) % 3
		bad := Pick(tp, "badsig", "stranger", "sibling", "critext", "indirect", oTrunc)
		script = append(script,
			func() {
				if bad == oTrunc {
					ml.CutAt = 0
					setOrigin(ml, oTrunc, k, "")
				} else {
					setOrigin(ml, oGood, k, bad)
				}
			},
			func() { r.handshakeWith(mn, ml, "never", 0, "own", strict, mode) },
			func() { h.Settle(2 * time.Second); r.events = append(r.events, "advance(2s)") },
			func() { setOrigin(ml, oGood, j, "") },
			func() { r.handshakeWith(mn, ml, "only", k, "own", strict, mode) },
			func() { r.handshakeWith(mn, ml, "only", j, "own", strict, mode) },
		)
	case 2: // strictness: unavailable, then garbage, then good
		script = append(script,
			func() { setOrigin(ml, Pick(tp, oDown, oHTTP500, oStall), ml.Cur, "") },
			func() { r.handshakeWith(mn, ml, "never", 0, "own", strict, mode) },
			func() { setOrigin(ml, Pick(tp, oGarbage, oEmpty, oWrongDoc, oTrunc), ml.Cur, "") },
			func() { r.handshakeWith(mn, ml, "common", 0, "own", strict, mode) },
			func() { setOrigin(ml, oGood, ml.Cur, "") },
			func() { r.handshakeWith(mn, ml, "never", 0, Pick(tp, "own", "mixed", "two"), strict, mode) },
			func() { r.handshakeWith(mn, ml, "common", 0, "own", strict, mode) },
		)
	case 4: // a load that fails (or is still pending), then a restart on the same work_dir, then the same certificate again
		script = append(script,
			func() { setOrigin(ml, Pick(tp, oDown, oGarbage, oHTTP500, oTrunc), ml.Cur, "") },
			func() { r.handshakeWith(mn, ml, "never", 0, "loc", strict, mode) },
			func() { r.restart(0) },
			func() { r.handshakeWith(r.nodes[0], ml, "never", 0, "loc", strict, mode) },
			func() { r.handshakeWith(r.nodes[0], ml, "common", 0, "loc", strict, mode) },
			func() { setOrigin(ml, oGood, ml.Cur, "") },
			func() { r.events = append(r.events, "tick"); h.Settle(10*time.Minute + 30*time.Second) },
			func() { r.handshakeWith(r.nodes[0], ml, "common", 0, "loc", strict, mode) },
		)
	case 5: // a background first load overtaken by a handshake that loads a NEWER issue meanwhile
		// The first handshake finds the origin down (the entry exists, nothing is loaded). The origin recovers with issue
		// a; the refresh cycle that loads the entry for the first time is served slowly; the origin publishes issue b > a;
		// a handshake loads b. When the slow download completes, the older issue must not replace the newer one.
		a, b := 0, 1+tp.Int(2)
		script = append(script,
			func() { setOrigin(ml, Pick(tp, oDown, oHTTP500), ml.Cur, "") },
			func() { r.handshakeWith(mn, ml, "never", 0, "own", strict, mode) },
			func() {
				setOrigin(ml, oGood, a, "")
				ml.SlowFirst, ml.Fetches = 3*time.Second, 0
				h.S.Run(func(v schedView) bool { return ml.Fetches > 0 }, h.S.Now()+11*time.Minute)
				r.events = append(r.events, fmt.Sprintf("tick-until-slow-fetch(fetches=%d)", ml.Fetches))
				setOrigin(ml, oGood, b, "")
			},
			func() { r.handshakeWith(mn, ml, "only", b, "own", strict, mode) },
			func() {
				before := r.observe(mn)[ml.Name]
				h.Settle(30 * time.Second)
				r.events = append(r.events, "advance(30s)")
				after := r.observe(mn)[ml.Name]
				h.R.Checks++
				if len(before.S) == 1 && before.S[0] == b && len(after.S) == 1 && after.S[0] == a {
					r.viol("C11.superseded-in-force", "older-issue-replaced-newer:"+fetch, "node %s answered from %s.v%d and 30 s later from the older issue v%d, whose slow download had begun before v%d was published: entries the newer list dropped are reported revoked again", mn.Name, ml.Name, b+1, a+1, b+1)
				}
			},
			func() { r.handshakeWith(mn, ml, "only", a, "own", strict, mode) },
		)
	case 3: // soundness across a refresh: listed before, newly listed after
		script = append(script,
			func() { r.handshakeWith(mn, ml, "common", 0, "own", strict, mode) },
			func() { setOrigin(ml, oGood, (ml.Cur+1)%3, "") },
			func() { r.events = append(r.events, "tick"); h.Settle(10*time.Minute + 30*time.Second) },
			func() { r.handshakeWith(mn, ml, "only", ml.Cur, Pick(tp, "own", "none"), strict, mode) },
			func() { r.handshakeWith(mn, ml, "twin", 0, "none", strict, mode) },
		)
	}
	// the near-twin of L1 is first used right after L1 itself (in half of the runs in which it exists): whatever the
	// validator knows about L1 by then says nothing about the twin
	if lc != nil && tp.Chance(2, 3) {
		pre := []func(){
			func() { r.handshakeWith(mn, l1, "never", 0, "own", strict, mode) },
			func() { r.handshakeWith(mn, lc, Pick(tp, "common", "common", "never"), 0, "own", strict, mode) },
		}
		script = append(pre, script...)
	}
	nev := cfg.histLen + tp.Int(cfg.histLen)
	for e := 0; e < nev+len(script); e++ {
		if e < len(script) {
			script[e]()
			h.Quiesce()
			for _, n := range r.nodes {
				r.checkObs(n, r.observe(n), fmt.Sprintf("after event %d", e+1))
			}
			if len(h.R.Violations) > 0 {
				break
			}
			continue
		}
		switch tp.Weighted(10, 3, 4, 1, 1) {
		case 0: // handshake
			n := r.nodes[tp.Int(len(r.nodes))]
			l := r.locs[tp.Int(len(r.locs))]
			r.handshake(n, l, strict, mode)
		case 1: // tick
			r.events = append(r.events, "tick")
			h.Settle(10*time.Minute + 30*time.Second)
		case 2: // origin change
			l := r.locs[tp.Int(len(r.locs))]
			if l.neverGood {
				l.State = Pick(tp, oDown, oHTTP404, oGarbage)
				r.events = append(r.events, fmt.Sprintf("origin(%s):=%s", l.Name, l.State))
				break
			}
			if faulty || tp.Chance(1, 2) {
				l.State = originStates[tp.Int(len(originStates))]
			} else {
				l.State = oGood
			}
			if tp.Chance(1, 2) {
				l.Cur = tp.Int(len(l.Versions))
			}
			l.Variant = ""
			if l.State == oGood && tp.Chance(1, 3) {
				l.Variant = variants[tp.Int(len(variants))]
			}
			r.publish(l)
			r.events = append(r.events, fmt.Sprintf("origin(%s):=%s v%d %s", l.Name, l.State, l.Cur+1, l.Variant))
			if l.State != oGood || l.Variant != "" {
				h.R.NonTrivial = true
			}
		case 3: // restart
			if !r.restart(tp.Int(len(r.nodes))) {
				return
			}
		case 4:
			r.events = append(r.events, "advance(3s)")
			h.Settle(3 * time.Second)
		}
		h.Quiesce()
		for _, n := range r.nodes {
			r.checkObs(n, r.observe(n), fmt.Sprintf("after event %d", e+1))
		}
		if len(h.R.Violations) > 0 {
			break
		}
	}
	h.R.Sample = map[string]any{"events": r.events}
	for _, n := range r.nodes {
		h.Cleanup(n.Node)
	}
	_ = l1
	_ = l2
	_ = l3
}

// restart cleans node i up and provisions a new instance on the same work_dir.
func (r *histRun) restart(i int) bool {
	h := r.h
	n := r.nodes[i]
	r.events = append(r.events, "restart("+n.Name+")")
	h.Cleanup(n.Node)
	h.Settle(6 * time.Minute) // let the old instance's in-flight work drain
	nn := &hNode{Node: h.NewNodeOn(fmt.Sprintf("%s.r%d", n.Name[:2], n.gen+1), r.ncfg[i], n.WorkDir), gen: n.gen + 1}
	if err := h.Provision(nn.Node); err != nil {
		r.h.Probe("reprovision-failed")
		r.events = append(r.events, "reprovision-failed")
		// origin may be down for a configured URL: provisioning legitimately fails then
		allGood := true
		for _, l := range r.locs {
			if l.source != "cdp" && (l.State != oGood || l.Variant != "") {
				allGood = false
			}
		}
		if allGood {
			r.viol("C20.reprovision", "reprovision-failed", "provisioning again on the same work_dir after Cleanup failed although every configured CRL is available: %v", err)
		}
		return false
	}
	r.nodes[i] = nn
	return true
}

func (r *histRun) handshake(n *hNode, l *hLoc, strict bool, mode string) {
	tp := r.h.Tape
	k := tp.Int(len(l.OnlyV))
	class := Pick(tp, "only", "common", "never", "twin", "cross")
	cdpKind := Pick(tp, "loc", "loc", "loc", "none", "ldap")
	if l.source != "cdp" {
		cdpKind = Pick(tp, "none", "none", "ldap")
	}
	r.handshakeWith(n, l, class, k, cdpKind, strict, mode)
}

func (r *histRun) handshakeWith(n *hNode, l *hLoc, class string, k int, cdpKind string, strict bool, mode string) {
	h, tp := r.h, r.h.Tape
	issuer := l.Issuer
	var serial *big.Int
	switch class {
	case "only":
		serial = l.OnlyV[k]
	case "common":
		serial = l.Common
	case "never":
		serial = l.Never[tp.Int(len(l.Never))]
	case "cross": // a serial listed by ANOTHER location of the same issuer, presented with this location's distribution points
		serial = l.Never[0]
		for _, o := range r.locs {
			if o != l && o.Issuer == l.Issuer {
				serial = o.Common
			}
		}
	case "twin": // a serial listed by this location, presented under the *other* issuer
		serial = l.Common
		if issuer == r.w.A {
			issuer = r.w.B
		} else {
			issuer = r.w.A
			if r.digitNames && tp.Chance(1, 2) {
				// B's name string is A's followed by "4": the serial "4"+s under A spells the same name+serial text
				serial, _ = new(big.Int).SetString("4"+l.Common.String(), 10)
			}
		}
	}
	// CDP set of the presented certificate
	var cdp []string
	var cdpLoc *hLoc
	switch cdpKind {
	case "own", "mixed", "two", "loc":
		if l.source == "cdp" {
			cdp, cdpLoc, cdpKind = l.cdp, l, l.cdpKind
		} else {
			cdp, cdpKind = []string{}, "none"
		}
	case "none":
		cdp = []string{}
	case "ldap":
		cdp = []string{"ldap://dir.sim/cn=crl,o=sim?certificateRevocationList"}
	}
	if class == "twin" {
		// the twin's own CDP points at the location of its own issuer, if there is one
		cdp, cdpLoc = []string{}, nil
		cdpKind = "none"
	}
	var aia []string
	ocspSaid := "no-aia"
	if rsp := r.resp[issuer]; rsp != nil && tp.Chance(2, 3) {
		aia = []string{rsp.URL}
		ocspSaid = Pick(tp, rGood, rGood, rUnknown, oDown, oGarbage, oHTTP500, rRevoked)
		setBehaviour(rsp, ocspSaid)
	}
	cert := issuer.Issue(EEOpts{Serial: serial, CDP: cdp, OCSP: aia})
	before := r.observe(n)
	hs := h.Handshake(n.Node, class, r.w.ChainFor(cert, issuer))
	h.Quiesce()
	after := r.observe(n)
	verdict := errStr(hs.Err)
	r.events = append(r.events, fmt.Sprintf("hs(%s,%s/%s,cdp=%s,ocsp=%s)=%s", n.Name, l.Name, class, cdpKind, ocspSaid, verdict))
	ocspRevoked := ocspSaid == rRevoked
	h.R.Checks++
	lb, la := r.listed(before, issuer, serial), r.listed(after, issuer, serial)
	crlOn := mode != "ocsp_only" && mode != "disabled"
	// C01: listed in a list that was in force throughout => rejected
	if crlOn && lb && la && hs.Err == nil {
		r.viol("C01.listed-accepted", "listed-accepted:"+class+":"+l.source, "node %s accepted %s serial %s although a CRL observed in force before and after the handshake lists it (before %v, after %v)", n.Name, issuer.Name, serial.Text(16), before, after)
	}
	// C01, independent of the probes (which share the lookup path with the handshake): where the validator itself
	// claims that a CRL of this location is loaded — it accepted a certificate through the strict gate, or
	// provisioning with the location configured succeeded — every acceptable version of the location lists
	// 'common', so accepting it is never right.
	if crlOn && hs.Err == nil && class == "common" && issuer == l.Issuer {
		switch {
		case strict && cdpLoc == l:
			r.viol("C01.listed-accepted", "loaded-claimed:strict-gate:"+l.source, "node %s accepted %s serial %s through the strict gate (so it claims a CRL for %s is loaded), but every version of that CRL lists the serial (issuer name %q)", n.Name, issuer.Name, serial.Text(16), l.Name, issuer.Cert.Subject.String())
		case l.source != "cdp":
			r.viol("C01.listed-accepted", "loaded-claimed:configured:"+l.source, "node %s accepted %s serial %s although %s is a configured CRL (provisioning succeeded) and every version of it lists the serial (issuer name %q)", n.Name, issuer.Name, serial.Text(16), l.Name, issuer.Cert.Subject.String())
		}
	}
	// C11: "revoked" needs a listing in something observed in force
	if isRevokedErr(hs.Err) && !lb && !la && !ocspRevoked && !(n.gen > 0 && r.listedOnDisk(n, issuer, serial)) {
		r.viol("C11.revoked-unlisted", "revoked-unlisted:"+class, "node %s reported %s serial %s revoked, but no version observed in force (before %v, after %v) lists it", n.Name, issuer.Name, serial.Text(16), before, after)
	}
	// C10
	if crlOn && len(cdp) > 0 {
		if strict {
			if hs.Err == nil {
				switch {
				case cdpKind == "ldap":
					r.viol("C10.strict-accept", "strict-accept:unsupported-cdp", "strict: node %s accepted a certificate whose only distribution point has an unsupported scheme", n.Name)
				case cdpLoc != nil && !after[cdpLoc.Name].inForce():
					r.viol("C10.strict-accept", "strict-accept:not-in-force:"+cdpKind, "strict: node %s accepted a certificate naming %s although no CRL of that location is observed in force after the handshake (%v)", n.Name, cdpLoc.Name, after[cdpLoc.Name])
				}
			}
		} else {
			// (origin misbehaviour is no excuse either: it is exactly "the inability to obtain or use a CRL"; only the
			// OCSP side, where a history has one, can deny for reasons of its own)
			if hs.Err != nil && !isRevokedErr(hs.Err) && (!r.cfg.faulty || !r.cfg.withOCSP) {
				r.viol("C10.lenient-deny", "lenient-deny:"+cdpKind, "lenient: node %s denied a certificate for a reason other than revocation: %v", n.Name, hs.Err)
			}
		}
	}
	if crlOn && len(cdp) == 0 && hs.Err != nil && !isRevokedErr(hs.Err) && (!r.cfg.faulty || !r.cfg.withOCSP) {
		r.viol("C10.lenient-deny", "deny-without-cdp", "node %s denied a certificate without distribution points for a reason other than revocation: %v", n.Name, hs.Err)
	}
	if hs.Err != nil || lb || la {
		h.R.NonTrivial = true
	}
}

var _ = x509.ECDSA
