package verifsim

import (
	"crypto/x509"
	"encoding/json"
	"errors"
	"fmt"
	"math/big"
	"os"
	"path/filepath"
	"reflect"
	"sort"
	"strings"
	"testing"
	"time"
	"unsafe"

	"github.com/caddyserver/caddy/v2"
	revocation "github.com/gr33nbl00d/caddy-revocation-validator"
	"github.com/gr33nbl00d/caddy-revocation-validator/core"
	"github.com/gr33nbl00d/caddy-revocation-validator/crl"
	"github.com/gr33nbl00d/caddy-revocation-validator/crl/crlloader"
	"github.com/gr33nbl00d/caddy-revocation-validator/crl/crlrepository"
	"github.com/gr33nbl00d/caddy-revocation-validator/crl/crlstore"
	"github.com/muesli/cache2go"
	"go.uber.org/zap"
)

// ---------------------------------------------------------------------------------------------
// Harness: what a scenario script sees. All calls into the code under test run as scheduler
// tasks; the script itself runs on the bubble's root goroutine and only decides, waits, observes.
// ---------------------------------------------------------------------------------------------

type Violation struct {
	Oracle    string `json:"oracle"`
	Signature string `json:"signature"`
	Detail    string `json:"detail"`
	Step      int    `json:"step"`
	SimT      string `json:"sim_t"`
}

type Result struct {
	Prop         string         `json:"prop"`
	Tier         string         `json:"tier"`
	Idx          int            `json:"idx"`
	Seed         uint64         `json:"seed"`
	Config       string         `json:"config"` // clean | faulty
	Scenario     map[string]any `json:"scenario"`
	ScenFP       string         `json:"scen_fp"`
	SchedFP      string         `json:"sched_fp"`
	Steps        int            `json:"steps"`
	Switches     int            `json:"switches"`
	SimNS        int64          `json:"sim_ns"`
	Faults       map[string]int `json:"faults"`
	Probes       map[string]int `json:"probes"`
	Checks       int            `json:"checks"`
	NonTrivial   bool           `json:"nontrivial"`
	Violations   []Violation    `json:"violations"`
	Inconclusive string         `json:"inconclusive,omitempty"`
	TraceHash    string         `json:"trace_hash"`
	Tape         []uint32       `json:"tape,omitempty"`
	Preempt      []preemptPoint `json:"preempt,omitempty"`
	TraceTail    []string       `json:"trace_tail,omitempty"`
	Sample       any            `json:"sample,omitempty"`
	WallMS       int64          `json:"wall_ms"`
}

type NodeCfg struct {
	Mode            string // "" = unset
	Storage         string // "", "memory", "disk"
	UpdateInterval  string // "" = default 30m
	SigMode         string // "", "verify", "verify_log", "none"
	CRLUrls         []string
	CRLFiles        []string
	TrustedSigFiles []string
	FetchMode       string // "", "fetch_actively", "fetch_background"
	CDPStrict       bool
	NoCDPConfig     bool
	NoCRLConfig     bool
	OCSPCache       string
	OCSPTrusted     []string
	AIAStrict       bool
	NoOCSPConfig    bool
}

type Node struct {
	Name      string
	Cfg       NodeCfg
	WorkDir   string
	WorkDirAs string // when set: how the configuration spells the work_dir (trailing slash, ./ prefix, doubled slash)
	V         *revocation.CertRevocationValidator
	ProvErr   error
	Provd     bool
	Dead      bool
	Interval  time.Duration
	provDone  chan struct{}
}

// syncProvisioned gives the race detector the one happens-before edge the deployment guarantees:
// Caddy finishes Provision before any handshake can reach the module. The provisioning task closes
// a channel (a race-visible synchronisation event) and the root goroutine, which forks every later
// task, receives from it.
func (n *Node) syncProvisioned() {
	if n.provDone != nil {
		<-n.provDone
	}
}

type Harness struct {
	T     *testing.T
	S     *Sim
	Net   *Net
	Disk  *Disk
	Tape  *Tape
	R     *Result
	Root  string // sandbox root on tmpfs
	Tier  string
	Idx   int
	nodes []*Node
	abort bool
	nodeN int
}

type abortRun struct{ why string }

func (h *Harness) Violation(oracle, signature, format string, a ...any) {
	h.R.Violations = append(h.R.Violations, Violation{Oracle: oracle, Signature: signature, Detail: fmt.Sprintf(format, a...), Step: h.S.steps, SimT: h.S.Now().String()})
	h.S.tracef("VIOLATION %s [%s] %s", oracle, signature, fmt.Sprintf(format, a...))
}

// Abort ends the scenario early (e.g. the system deadlocked and nothing further can be observed).
func (h *Harness) Abort(why string) {
	panic(abortRun{why})
}

func (h *Harness) Probe(name string) { h.R.Probes[name]++ }

func (c NodeCfg) JSON(workDir string) string {
	m := map[string]any{}
	if c.Mode != "" {
		m["mode"] = c.Mode
	}
	if !c.NoCRLConfig {
		cc := map[string]any{"work_dir": workDir}
		if c.Storage != "" {
			cc["storage_type"] = c.Storage
		}
		if c.UpdateInterval != "" {
			cc["update_interval"] = c.UpdateInterval
		}
		if c.SigMode != "" {
			cc["signature_validation_mode"] = c.SigMode
		}
		if len(c.CRLUrls) > 0 {
			cc["crl_urls"] = c.CRLUrls
		}
		if len(c.CRLFiles) > 0 {
			cc["crl_files"] = c.CRLFiles
		}
		if len(c.TrustedSigFiles) > 0 {
			cc["trusted_signature_certs_files"] = c.TrustedSigFiles
		}
		if !c.NoCDPConfig {
			cdp := map[string]any{}
			if c.FetchMode != "" {
				cdp["crl_fetch_mode"] = c.FetchMode
			}
			if c.CDPStrict {
				cdp["crl_cdp_strict"] = true
			}
			cc["cdp_config"] = cdp
		}
		m["crl_config"] = cc
	}
	if !c.NoOCSPConfig {
		oc := map[string]any{}
		if c.OCSPCache != "" {
			oc["default_cache_duration"] = c.OCSPCache
		}
		if len(c.OCSPTrusted) > 0 {
			oc["trusted_responder_certs_files"] = c.OCSPTrusted
		}
		if c.AIAStrict {
			oc["ocsp_aia_strict"] = true
		}
		m["ocsp_config"] = oc
	}
	b, _ := json.Marshal(m)
	return string(b)
}

func (c NodeCfg) crlEnabled() bool {
	switch c.Mode {
	case "", "prefer_ocsp", "prefer_crl", "crl_only":
		return true
	}
	return false
}
func (c NodeCfg) ocspEnabled() bool {
	switch c.Mode {
	case "", "prefer_ocsp", "prefer_crl", "ocsp_only":
		return true
	}
	return false
}

// NewNode creates a validator instance description with its own work_dir below the sandbox.
func (h *Harness) NewNode(name string, cfg NodeCfg) *Node {
	h.nodeN++
	wd := filepath.Join(h.Root, "sandbox", fmt.Sprintf("workdir_%s", name))
	if err := os.MkdirAll(wd, 0700); err != nil {
		panic(err)
	}
	n := &Node{Name: name, Cfg: cfg, WorkDir: wd}
	n.Interval = 30 * time.Minute
	if cfg.UpdateInterval != "" {
		d, err := time.ParseDuration(cfg.UpdateInterval)
		if err == nil {
			n.Interval = d
		}
	}
	h.Disk.SetWorkDir(name, wd)
	h.nodes = append(h.nodes, n)
	return n
}

// NewNodeOn is NewNode with an explicit (existing) work_dir, used for restarts on a crash image.
func (h *Harness) NewNodeOn(name string, cfg NodeCfg, workDir string) *Node {
	n := &Node{Name: name, Cfg: cfg, WorkDir: workDir, Interval: 30 * time.Minute}
	if cfg.UpdateInterval != "" {
		if d, err := time.ParseDuration(cfg.UpdateInterval); err == nil {
			n.Interval = d
		}
	}
	h.Disk.SetWorkDir(name, workDir)
	h.nodes = append(h.nodes, n)
	return n
}

// WriteFile places a file somewhere in the sandbox (configured CRL files, trusted certificates).
func (h *Harness) WriteFile(rel string, data []byte) string {
	p := filepath.Join(h.Root, "sandbox", rel)
	os.MkdirAll(filepath.Dir(p), 0700)
	if err := os.WriteFile(p, data, 0600); err != nil {
		panic(err)
	}
	return p
}

// StartProvision starts Provision as a client task.
func (h *Harness) StartProvision(n *Node) *Task {
	v := &revocation.CertRevocationValidator{}
	wdj := n.WorkDir
	if n.WorkDirAs != "" {
		wdj = n.WorkDirAs // the same directory, spelled differently in the configuration
	}
	if err := json.Unmarshal([]byte(n.Cfg.JSON(wdj)), v); err != nil {
		panic(err)
	}
	n.V = v
	n.provDone = make(chan struct{})
	return h.S.Go(n.Name, n.Name+"/provision", func() {
		defer close(n.provDone)
		n.ProvErr = v.Provision(caddy.Context{})
		n.Provd = true
	})
}

// Provision provisions the node and waits for it.
func (h *Harness) Provision(n *Node) error {
	t := h.StartProvision(n)
	h.Wait(t)
	n.syncProvisioned()
	return n.ProvErr
}

type HS struct {
	Task  *Task
	Err   error
	Done  bool
	Call  int // scheduler step at invocation / return (for linearizability histories)
	Ret   int
	CallT time.Duration
	RetT  time.Duration
	Cert  *x509.Certificate
	Label string
	NetAt int // number of hits in the log when the call started
	NetTo int
}

var hsN int

// StartHandshake runs VerifyClientCertificate as a client task.
func (h *Harness) StartHandshake(n *Node, label string, chains [][]*x509.Certificate) *HS {
	hs := &HS{Label: label}
	if len(chains) > 0 && len(chains[0]) > 0 {
		hs.Cert = chains[0][0]
	}
	raw := make([][]byte, 0)
	hs.Call, hs.CallT, hs.NetAt = h.S.steps, h.S.Now(), h.Net.HitCount()
	hs.Task = h.S.Go(n.Name, n.Name+"/hs:"+label, func() {
		defer func() {
			if !hs.Done {
				// the call panicked (the panic itself is reported by Wait): it is not an acceptance
				hs.Err = errors.New("panic in VerifyClientCertificate")
			}
		}()
		err := n.V.VerifyClientCertificate(raw, chains)
		hs.Err = err
		hs.Ret, hs.RetT, hs.NetTo = h.S.steps, h.S.Now(), h.Net.HitCount()
		hs.Done = true
	})
	hs.Task.onDone = nil
	return hs
}

// Handshake performs one handshake to completion (other tasks may interleave).
func (h *Harness) Handshake(n *Node, label string, chains [][]*x509.Certificate) *HS {
	hs := h.StartHandshake(n, label, chains)
	h.Wait(hs.Task)
	return hs
}

// Wait runs the scheduler until the given tasks have finished. Simulated time may pass (retries).
func (h *Harness) Wait(tasks ...*Task) {
	err := h.S.Run(func(v schedView) bool {
		for _, t := range tasks {
			if !t.done {
				return false
			}
		}
		return true
	}, h.S.Now()+6*time.Hour)
	h.handleRunErr(err)
	for _, t := range tasks {
		if !t.done {
			h.Violation("engine.call-did-not-return", "hang:"+baseKey(t.Key), "client call %s did not return within 6h of simulated time", t.Key)
			h.Abort("client call did not return")
		}
		if t.panicVal != nil {
			h.Violation("engine.panic", "panic:"+topRepoFrame(t.panicStack), "panic in %s: %v\n%s", t.Key, t.panicVal, t.panicStack)
			t.panicVal = nil
		}
	}
}

func baseKey(k string) string {
	if i := strings.Index(k, "/"); i >= 0 {
		k = k[i+1:]
	}
	if i := strings.IndexAny(k, ":#"); i >= 0 {
		k = k[:i]
	}
	return k
}

func topRepoFrame(stack string) string {
	for _, l := range strings.Split(stack, "\n") {
		if strings.HasPrefix(l, "github.com/gr33nbl00d/caddy-revocation-validator") && !strings.Contains(l, "verifhook") {
			l = strings.TrimPrefix(l, "github.com/gr33nbl00d/caddy-revocation-validator")
			if i := strings.LastIndex(l, "("); i > 0 {
				l = l[:i]
			}
			return strings.TrimLeft(l, "/.")
		}
	}
	return "?"
}

func (h *Harness) handleRunErr(err error) {
	if err == nil {
		return
	}
	var dl *DeadlockError
	if errors.As(err, &dl) {
		h.Violation("engine.deadlock", strings.Join(dl.Funcs, "+"), "%s", strings.Join(dl.Blocked, "; "))
		h.Abort("deadlock")
	}
	var sl *StepLimitError
	if errors.As(err, &sl) {
		h.R.Inconclusive = err.Error()
		h.Abort("step limit")
	}
	panic(err)
}

// Settle lets d of simulated time pass, running every task that becomes runnable, and then runs
// until nothing is parked.
func (h *Harness) Settle(d time.Duration) {
	target := h.S.Now() + d
	err := h.S.Run(func(v schedView) bool { return h.S.Now() >= target && len(v.parked) == 0 }, target)
	h.handleRunErr(err)
	// the deadline may have been reached with tasks still runnable
	err = h.S.Run(func(v schedView) bool { return len(v.parked) == 0 }, h.S.Now()+6*time.Hour)
	h.handleRunErr(err)
	h.collectPanics()
}

// Quiesce runs until nothing is parked without letting more than max simulated time pass.
func (h *Harness) Quiesce() {
	err := h.S.Run(func(v schedView) bool { return len(v.parked) == 0 }, h.S.Now()+6*time.Hour)
	h.handleRunErr(err)
	h.collectPanics()
}

func (h *Harness) collectPanics() {
	h.S.mu.Lock()
	ts := append([]*Task(nil), h.S.tasks...)
	h.S.mu.Unlock()
	for _, t := range ts {
		if t.panicVal != nil {
			h.Violation("engine.panic", "panic:"+topRepoFrame(t.panicStack), "panic in %s: %v\n%s", t.Key, t.panicVal, t.panicStack)
			t.panicVal = nil
		}
	}
}

// Call runs f as a client task of node n to completion and returns.
func (h *Harness) Call(n *Node, key string, f func()) {
	t := h.S.Go(n.Name, n.Name+"/"+key, f)
	h.Wait(t)
}

// Exclusive runs f as a task that is preferred over every other task: other tasks run only while
// f cannot (lock held elsewhere). Used for observations that must not be reordered.
func (h *Harness) Exclusive(n *Node, key string, f func()) {
	t := h.S.Go(n.Name, n.Name+"/"+key, f)
	t.quiet = true
	saveSw, saveSt := h.S.pSwitchNum, h.S.pStallNum
	h.S.pSwitchNum, h.S.pStallNum = 0, 0
	h.S.last = t
	h.S.prefer = t
	h.Wait(t)
	h.S.prefer = nil
	h.S.pSwitchNum, h.S.pStallNum = saveSw, saveSt
}

func (h *Harness) Cleanup(n *Node) error {
	var err error
	h.Call(n, "cleanup", func() { err = n.V.Cleanup() })
	return err
}

// Repo returns the validator's CRL repository (nil when CRL checking is disabled). The fields
// are found by type, not by name.
func (n *Node) Repo() *crlrepository.Repository {
	if n.V == nil {
		return nil
	}
	var chk *crl.CRLRevocationChecker
	if !fieldByType(reflect.ValueOf(n.V).Elem(), &chk) || chk == nil {
		return nil
	}
	var repo *crlrepository.Repository
	if !fieldByType(reflect.ValueOf(chk).Elem(), &repo) {
		return nil
	}
	return repo
}

func fieldByType[T any](v reflect.Value, out *T) bool {
	want := reflect.TypeOf(out).Elem()
	for i := 0; i < v.NumField(); i++ {
		f := v.Field(i)
		if f.Type() == want {
			p := reflect.NewAt(f.Type(), unsafe.Pointer(f.UnsafeAddr())).Elem()
			*out = p.Interface().(T)
			return true
		}
	}
	return false
}

// PureProbe asks the repository whether (issuer, serial) is listed in any CRL it currently
// treats as loaded. No CDP is passed, so there is no strict gate, no fetch and no state change.
func (h *Harness) PureProbe(n *Node, issuerRaw []byte, serial *big.Int) (revoked bool, err error) {
	return h.PureProbeCert(n, &x509.Certificate{RawIssuer: issuerRaw, SerialNumber: serial})
}

// PureProbeCert is PureProbe with a complete (parsed) certificate.
func (h *Harness) PureProbeCert(n *Node, cert *x509.Certificate) (revoked bool, err error) {
	repo := n.Repo()
	if repo == nil {
		return false, errors.New("no repository")
	}
	h.Exclusive(n, "probe", func() {
		st, e := repo.IsRevoked(cert, nil)
		if e != nil {
			err = e
			return
		}
		revoked = st.Revoked
	})
	return
}

// Crash kills every task of the node and returns a copy of its work_dir (the crash image).
func (h *Harness) Crash(n *Node, tag string) string {
	img := filepath.Join(h.Root, "sandbox", fmt.Sprintf("image_%s_%s", n.Name, tag))
	// all tasks are parked or durably blocked here; goleveldb goroutines are quiescent
	if !h.Disk.StSnapDone || h.Disk.StSnapTo != img {
		if err := h.Disk.Snapshot(n.WorkDir, img); err != nil {
			panic(err)
		}
	}
	h.S.KillNode(n.Name)
	n.Dead = true
	h.S.stat("crash")
	return img
}

// ResetProcessGlobals approximates what a process restart does to state that lives outside the
// validator instance: the OCSP cache table.
func (h *Harness) FlushOCSPCache() {
	cache2go.Cache("ocsp_client").Flush()
}

func (h *Harness) TreeOf(n *Node) []string { return ListTree(n.WorkDir) }

func tmpArtefacts(list []string) []string {
	var out []string
	for _, p := range list {
		top := strings.TrimSuffix(strings.SplitN(p, "/", 2)[0], "/")
		if len(top) >= 8 && strings.HasPrefix(top, "crl_") && strings.HasSuffix(top, "_tmp") {
			out = append(out, top)
		}
	}
	sort.Strings(out)
	return uniq(out)
}

// strayEntries lists top-level entries of a work_dir that are neither foreign (allowed) nor a directory that was
// ever opened as a database under that name in this run: whatever else the validator left behind is an artefact,
// whether or not its name matches the temporary-name pattern.
func (h *Harness) strayEntries(wd string, allowed map[string]bool) []string {
	var out []string
	ents, _ := os.ReadDir(wd)
	h.Disk.mu.Lock()
	defer h.Disk.mu.Unlock()
	for _, e := range ents {
		if allowed[e.Name()] || h.Disk.OpenedNames[e.Name()] {
			continue
		}
		out = append(out, e.Name())
	}
	sort.Strings(out)
	return out
}

func uniq(s []string) []string {
	var out []string
	for i, x := range s {
		if i == 0 || x != s[i-1] {
			out = append(out, x)
		}
	}
	return out
}

func Chain(certs ...*x509.Certificate) [][]*x509.Certificate {
	return [][]*x509.Certificate{certs}
}

type x509Cert = x509.Certificate

// repoStore returns the CRLStore of the repository's first entry (by identifier order); fields are
// found by type, not by name.
func repoStore(repo *crlrepository.Repository) crlstore.CRLStore {
	if repo == nil {
		return nil
	}
	v := reflect.ValueOf(repo).Elem()
	for i := 0; i < v.NumField(); i++ {
		f := v.Field(i)
		if f.Kind() == reflect.Map && f.Type().Elem() == reflect.TypeOf((*crlrepository.Entry)(nil)) {
			m := reflect.NewAt(f.Type(), unsafe.Pointer(f.UnsafeAddr())).Elem().Interface().(map[string]*crlrepository.Entry)
			for _, k := range sortedKeys(m) {
				if e := m[k]; e != nil && e.CRLStore != nil {
					return e.CRLStore
				}
			}
		}
	}
	return nil
}

// repoStoreOf returns the CRLStore of the repository entry with the given identifier.
func repoStoreOf(repo *crlrepository.Repository, id string) crlstore.CRLStore {
	if repo == nil {
		return nil
	}
	v := reflect.ValueOf(repo).Elem()
	for i := 0; i < v.NumField(); i++ {
		f := v.Field(i)
		if f.Kind() == reflect.Map && f.Type().Elem() == reflect.TypeOf((*crlrepository.Entry)(nil)) {
			m := reflect.NewAt(f.Type(), unsafe.Pointer(f.UnsafeAddr())).Elem().Interface().(map[string]*crlrepository.Entry)
			if e := m[id]; e != nil {
				return e.CRLStore
			}
		}
	}
	return nil
}

// calcCDPIdentifier computes the repository identifier of a certificate's distribution-point set through the
// repository's own loader factory (so that a change of the identifier scheme is followed).
func calcCDPIdentifier(urls ...string) string {
	l, err := crlloader.DefaultCRLLoaderFactory{}.CreatePreferredCrlLoader(&core.CRLLocations{CRLDistributionPoints: urls}, zap.NewNop())
	if err != nil {
		return ""
	}
	id, _ := l.GetCRLLocationIdentifier()
	return id
}
