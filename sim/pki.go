package verifsim

import (
	"crypto"
	"crypto/ecdsa"
	"crypto/ed25519"
	"crypto/elliptic"
	"crypto/rand"
	"crypto/rsa"
	"crypto/sha1"
	"crypto/x509"
	"crypto/x509/pkix"
	_ "embed"
	"encoding/asn1"
	"encoding/pem"
	"fmt"
	"math/big"
	"time"
)

// ---------------------------------------------------------------------------------------------
// PKI of a simulated world. Keys are generated per run from the (seeded) global crypto random
// source; RSA keys come from a committed pool because generating them per run is too slow.
// ---------------------------------------------------------------------------------------------

//go:embed testdata/rsakeys.pem
var rsaPoolPEM []byte

var rsaPool []*rsa.PrivateKey

func loadRSAPool() {
	if rsaPool != nil {
		return
	}
	rest := rsaPoolPEM
	for {
		var b *pem.Block
		b, rest = pem.Decode(rest)
		if b == nil {
			break
		}
		k, err := x509.ParsePKCS1PrivateKey(b.Bytes)
		if err != nil {
			panic(err)
		}
		rsaPool = append(rsaPool, k)
	}
}

var epoch = time.Date(2000, 1, 1, 0, 0, 0, 0, time.UTC) // synctest bubbles start here

type CA struct {
	Name string
	Cert *x509.Certificate
	Key  crypto.Signer
}

type CAOpts struct {
	CN        string
	RSA       int // 0: ECDSA; n>0: RSA key number n-1 of the pool
	Curve     elliptic.Curve
	Ed25519   bool
	NoKeyUse  bool          // omit the keyUsage extension
	KeyUsage  x509.KeyUsage // default certSign|crlSign
	NotCA     bool          // issue as end-entity-like certificate (no basicConstraints CA)
	EKU       []x509.ExtKeyUsage
	Serial    int64
	SKI       []byte
	SubjectOf *CA // copy the subject DN of another CA (sibling with the same name)
	DNShape   int // 0: canonical (O, CN); other values: name shapes outside Go's canonical pkix.Name form
}

// dnShape returns the raw DER of a subject name in one of several shapes that real CAs use and that the
// lossy pkix.Name view does not reproduce: domainComponent RDNs, LDAP order, repeated attribute types,
// emailAddress, a multi-valued RDN.
func dnShape(cn string, shape int) []byte {
	oidCN, oidO, oidC, oidOU := asn1.ObjectIdentifier{2, 5, 4, 3}, asn1.ObjectIdentifier{2, 5, 4, 10}, asn1.ObjectIdentifier{2, 5, 4, 6}, asn1.ObjectIdentifier{2, 5, 4, 11}
	oidDC := asn1.ObjectIdentifier{0, 9, 2342, 19200300, 100, 1, 25}
	oidEmail := asn1.ObjectIdentifier{1, 2, 840, 113549, 1, 9, 1}
	one := func(t asn1.ObjectIdentifier, v string) pkix.RelativeDistinguishedNameSET {
		return pkix.RelativeDistinguishedNameSET{{Type: t, Value: v}}
	}
	ia5 := func(t asn1.ObjectIdentifier, v string) pkix.RelativeDistinguishedNameSET {
		return pkix.RelativeDistinguishedNameSET{{Type: t, Value: asn1.RawValue{Tag: asn1.TagIA5String, Bytes: []byte(v)}}}
	}
	var seq pkix.RDNSequence
	switch shape {
	case 1: // Active Directory style
		seq = pkix.RDNSequence{ia5(oidDC, "corp"), ia5(oidDC, "example"), one(oidCN, cn)}
	case 2: // LDAP order
		seq = pkix.RDNSequence{one(oidCN, cn), one(oidO, "Sim"), one(oidC, "DE")}
	case 3: // the same attribute type in two RDNs
		seq = pkix.RDNSequence{one(oidC, "DE"), one(oidO, "Sim"), one(oidOU, "Unit A"), one(oidOU, "Unit B"), one(oidCN, cn)}
	case 4: // OpenSSL style with emailAddress
		seq = pkix.RDNSequence{one(oidC, "DE"), one(oidO, "Sim"), one(oidCN, cn), ia5(oidEmail, "ca@example.sim")}
	case 5: // multi-valued RDN
		seq = pkix.RDNSequence{one(oidO, "Sim"), pkix.RelativeDistinguishedNameSET{{Type: oidCN, Value: cn}, {Type: oidOU, Value: "Multi"}}}
	case 6: // canonical form with a non-ASCII last letter: two such names differ in one UTF-8 continuation byte only
		r := map[byte]string{'A': "Ä", 'B': "Ö"}[cn[len(cn)-1]]
		if r == "" {
			r = "Ü"
		}
		seq = pkix.RDNSequence{one(oidO, "Sim"), one(oidCN, cn[:len(cn)-1]+r)}
	case 7: // names whose string form ENDS in digits, one a digit-prefix of the other ("...O=Sim 2" / "...O=Sim 24"): a
		// store key that glues name and decimal serial together without a separator confuses (B, s) with (A, "4"+s)
		r := map[byte]string{'A': "2", 'B': "24"}[cn[len(cn)-1]]
		if r == "" {
			r = "3"
		}
		seq = pkix.RDNSequence{one(oidO, "Sim "+r), one(oidCN, cn[:len(cn)-2])}
	default:
		return nil
	}
	b, err := asn1.Marshal(seq)
	if err != nil {
		panic(err)
	}
	return b
}

var caSerial int64 = 1000

func newKey(o CAOpts) crypto.Signer {
	switch {
	case o.Ed25519:
		_, k, err := ed25519.GenerateKey(rand.Reader)
		if err != nil {
			panic(err)
		}
		return k
	case o.RSA > 0:
		loadRSAPool()
		return rsaPool[(o.RSA-1)%len(rsaPool)]
	}
	c := o.Curve
	if c == nil {
		c = elliptic.P256()
	}
	k, err := ecdsa.GenerateKey(c, rand.Reader)
	if err != nil {
		panic(err)
	}
	return k
}

// NewCA creates a CA certificate signed by parent (self-signed when parent is nil).
func NewCA(parent *CA, o CAOpts) *CA {
	key := newKey(o)
	caSerial++
	ser := o.Serial
	if ser == 0 {
		ser = caSerial
	}
	subj := pkix.Name{CommonName: o.CN, Organization: []string{"Sim"}}
	tmpl := &x509.Certificate{
		SerialNumber: big.NewInt(ser), Subject: subj,
		NotBefore: epoch.Add(-24 * time.Hour), NotAfter: epoch.Add(20 * 365 * 24 * time.Hour),
		IsCA: !o.NotCA, BasicConstraintsValid: true, ExtKeyUsage: o.EKU,
	}
	if o.SubjectOf != nil {
		tmpl.RawSubject = o.SubjectOf.Cert.RawSubject
	} else if raw := dnShape(o.CN, o.DNShape); raw != nil {
		tmpl.RawSubject = raw
	}
	if !o.NoKeyUse {
		tmpl.KeyUsage = o.KeyUsage
		if tmpl.KeyUsage == 0 {
			tmpl.KeyUsage = x509.KeyUsageCertSign | x509.KeyUsageCRLSign
		}
	}
	if o.SKI != nil {
		tmpl.SubjectKeyId = o.SKI
	} else {
		pk, _ := x509.MarshalPKIXPublicKey(key.Public())
		h := sha1.Sum(pk)
		tmpl.SubjectKeyId = h[:]
	}
	signer, signerCert := key, tmpl
	if parent != nil {
		signer, signerCert = parent.Key, parent.Cert
	}
	der, err := x509.CreateCertificate(rand.Reader, tmpl, signerCert, key.Public(), signer)
	if err != nil {
		panic(fmt.Sprintf("NewCA %s: %v", o.CN, err))
	}
	c, err := x509.ParseCertificate(der)
	if err != nil {
		panic(err)
	}
	return &CA{Name: o.CN, Cert: c, Key: key}
}

const (
	akiDefault    = iota // keyId only (what CreateCertificate emits when the parent has an SKI)
	akiAbsent            // no AKI extension
	akiIssuerSer         // authorityCertIssuer + authorityCertSerialNumber
	akiBoth              // keyId + issuer + serial
	akiForeignKey        // keyId of some other key
	akiSerialOnly        // authorityCertSerialNumber without authorityCertIssuer (malformed, seen in the wild)
	akiURISerial         // authorityCertIssuer holding a URI instead of a directoryName + serial
)

type EEOpts struct {
	CN         string
	Serial     *big.Int
	CDP        []string
	OCSP       []string
	AKI        int
	Subject    []byte // raw subject DN override
	RSA        int
	NoSKI      bool // IssueWithKey: no subjectKeyIdentifier (what most CAs issue for end entities)
	NoKeyUsage bool // IssueWithKey: no keyUsage extension at all (legal; such a key is not restricted by that extension)
}

var (
	oidAKI = asn1.ObjectIdentifier{2, 5, 29, 35}
)

// Issue creates an end-entity certificate.
func (ca *CA) Issue(o EEOpts) *x509.Certificate {
	key := newKey(CAOpts{RSA: o.RSA})
	cn := o.CN
	if cn == "" {
		cn = "client"
	}
	tmpl := &x509.Certificate{
		SerialNumber: o.Serial, Subject: pkix.Name{CommonName: cn, Organization: []string{"Sim"}},
		NotBefore: epoch.Add(-24 * time.Hour), NotAfter: epoch.Add(20 * 365 * 24 * time.Hour),
		KeyUsage: x509.KeyUsageDigitalSignature, ExtKeyUsage: []x509.ExtKeyUsage{x509.ExtKeyUsageClientAuth},
		CRLDistributionPoints: o.CDP, OCSPServer: o.OCSP,
	}
	if o.Subject != nil {
		tmpl.RawSubject = o.Subject
	}
	parent := *ca.Cert
	switch o.AKI {
	case akiAbsent:
		parent.SubjectKeyId = nil
	case akiIssuerSer, akiBoth, akiForeignKey:
		parent.SubjectKeyId = nil
		tmpl.ExtraExtensions = append(tmpl.ExtraExtensions, pkix.Extension{Id: oidAKI, Value: AKIBytes(ca, o.AKI)})
	}
	der, err := x509.CreateCertificate(rand.Reader, tmpl, &parent, key.Public(), ca.Key)
	if err != nil {
		panic(fmt.Sprintf("Issue: %v", err))
	}
	c, err := x509.ParseCertificate(der)
	if err != nil {
		panic(err)
	}
	return c
}

// IssueWithKey is Issue but also returns the end-entity's private key (needed when the client
// certificate itself is used as a forged signer).
func (ca *CA) IssueWithKey(o EEOpts) (*x509.Certificate, crypto.Signer) {
	key := newKey(CAOpts{RSA: o.RSA})
	cn := o.CN
	if cn == "" {
		cn = "client"
	}
	tmpl := &x509.Certificate{
		SerialNumber: o.Serial, Subject: pkix.Name{CommonName: cn, Organization: []string{"Sim"}},
		NotBefore: epoch.Add(-24 * time.Hour), NotAfter: epoch.Add(20 * 365 * 24 * time.Hour),
		KeyUsage: x509.KeyUsageDigitalSignature, ExtKeyUsage: []x509.ExtKeyUsage{x509.ExtKeyUsageClientAuth},
		CRLDistributionPoints: o.CDP, OCSPServer: o.OCSP,
	}
	if o.Subject != nil {
		tmpl.RawSubject = o.Subject
	}
	if o.NoKeyUsage {
		tmpl.KeyUsage = 0
	}
	if !o.NoSKI {
		pk, _ := x509.MarshalPKIXPublicKey(key.Public())
		h := sha1.Sum(pk)
		tmpl.SubjectKeyId = h[:]
	}
	der, err := x509.CreateCertificate(rand.Reader, tmpl, ca.Cert, key.Public(), ca.Key)
	if err != nil {
		panic(fmt.Sprintf("IssueWithKey: %v", err))
	}
	c, err := x509.ParseCertificate(der)
	if err != nil {
		panic(err)
	}
	return c, key
}

func CertPEM(c *x509.Certificate) []byte {
	return pem.EncodeToMemory(&pem.Block{Type: "CERTIFICATE", Bytes: c.Raw})
}

// SerialOfWidth returns a positive serial number occupying exactly n content bytes in DER.
// tag distinguishes serials; for n < 4 the serial is just the tag placed in n bytes.
func SerialOfWidth(n int, fill byte, tag uint32) *big.Int {
	if n < 1 {
		n = 1
	}
	switch n {
	case 1:
		if tag == 0 || tag > 127 {
			panic("harness: serial tag does not fit one byte")
		}
		return big.NewInt(int64(tag))
	case 2:
		return big.NewInt(int64(0x4000 | tag&0x3fff))
	case 3:
		return big.NewInt(int64(0x400000 | tag&0x3fffff))
	}
	b := make([]byte, n)
	for i := range b {
		b[i] = fill + byte(i*7)
	}
	b[0] = 0x40 | (b[0] & 0x3f)
	b[n-1] = byte(tag)
	b[n-2] = byte(tag >> 8)
	b[n-3] = byte(tag >> 16)
	return new(big.Int).SetBytes(b)
}
