package verifsim

import (
	"bytes"
	"crypto/sha256"
	"encoding/hex"
	"encoding/json"
	"flag"
	"fmt"
	"log"
	"net/http"
	"os"
	"sort"
	"strconv"
	"strings"
	"sync"
	"syscall"
	"testing"
	"testing/cryptotest"
	"testing/synctest"

	"github.com/gr33nbl00d/caddy-revocation-validator/verifhook"
	"github.com/syndtr/goleveldb/leveldb"
	"github.com/syndtr/goleveldb/leveldb/opt"
)

var (
	fProp   = flag.String("prop", "", "property id")
	fTier   = flag.String("tier", "quick", "quick|thorough")
	fIdx    = flag.Int("idx", 0, "run index within the plan")
	fSeed   = flag.Uint64("seed", 1, "base seed (VERIF_SEED)")
	fReplay = flag.String("replay", "", "replay file")
	fPlan   = flag.Bool("plan", false, "print the plan for -prop/-tier and exit")
	fTrace  = flag.Bool("trace", false, "print the whole trace")
	fFull   = flag.Bool("full", false, "include tape and preemptions in the result even without a violation")
)

type Plan struct {
	Runs       int    `json:"runs"`       // total number of runs (idx 0..Runs-1)
	Enumerated int    `json:"enumerated"` // the first Enumerated indices enumerate a finite space completely
	Exhaustive bool   `json:"exhaustive"`
	Rule       string `json:"rule"`
	Level      string `json:"level"`
	Race       bool   `json:"race"`       // runs want the -race build
	RaceEvery  int    `json:"race_every"` // > 0: every RaceEvery-th run wants the -race build
	RaceFrom   int    `json:"race_from"`  // > 0: runs with RaceFrom <= idx < RaceTo want the -race build
	RaceTo     int    `json:"race_to"`
}

type PropDef struct {
	ID   string
	Plan func(tier string) Plan
	Run  func(h *Harness)
}

var props = map[string]*PropDef{}

func register(p *PropDef) { props[p.ID] = p }

type ReplayFile struct {
	Property  string         `json:"property"`
	Tier      string         `json:"tier"`
	Idx       int            `json:"idx"`
	Seed      uint64         `json:"seed"`
	Tape      []uint32       `json:"tape,omitempty"`
	UseTape   bool           `json:"use_tape"`
	Preempt   []preemptPoint `json:"preempt,omitempty"`
	UsePre    bool           `json:"use_preempt"`
	Violation *Violation     `json:"violation,omitempty"`
	TraceHash string         `json:"trace_hash,omitempty"`
	TraceTail []string       `json:"trace_tail,omitempty"`
	Scenario  map[string]any `json:"scenario,omitempty"`
	MinFrom   map[string]int `json:"minimised_from,omitempty"`
}

func runSeed(base uint64, prop string, idx int) uint64 {
	return mix64(base, prop, uint64(idx)) | 1
}

func TestSim(t *testing.T) {
	if *fProp == "" && *fReplay == "" {
		t.Skip("no -prop")
	}
	p := props[*fProp]
	if p == nil && *fReplay == "" {
		fmt.Printf("HARNESS-ERROR unknown property %s\n", *fProp)
		os.Exit(2)
	}
	if *fPlan {
		b, _ := json.Marshal(p.Plan(*fTier))
		fmt.Printf("PLAN %s\n", b)
		return
	}
	prop, tier, idx, base := *fProp, *fTier, *fIdx, *fSeed
	var rf *ReplayFile
	if *fReplay != "" {
		b, err := os.ReadFile(*fReplay)
		if err != nil {
			fmt.Printf("HARNESS-ERROR %v\n", err)
			os.Exit(2)
		}
		rf = &ReplayFile{}
		if err := json.Unmarshal(b, rf); err != nil {
			fmt.Printf("HARNESS-ERROR %v\n", err)
			os.Exit(2)
		}
		prop, tier, idx, base = rf.Property, rf.Tier, rf.Idx, rf.Seed
		p = props[prop]
		if p == nil {
			fmt.Printf("HARNESS-ERROR unknown property %s in replay file\n", prop)
			os.Exit(2)
		}
	}
	seed := runSeed(base, prop, idx)
	var tape *Tape
	if rf != nil && rf.UseTape {
		tape = NewReplayTape(rf.Tape)
	} else {
		tape = NewTape(seed)
	}
	root, err := os.MkdirTemp(scratchBase(), "run-")
	if err != nil {
		fmt.Printf("HARNESS-ERROR %v\n", err)
		os.Exit(2)
	}
	// every path the scenario uses is relative to the run's root, so that identifiers derived from
	// paths (and therefore iteration orders) do not depend on the random name of the scratch directory
	if err := os.Chdir(root); err != nil {
		fmt.Printf("HARNESS-ERROR %v\n", err)
		os.Exit(2)
	}
	if os.Getenv("VERIF_LOG") == "" {
		if dn, err := os.OpenFile(os.DevNull, os.O_WRONLY, 0); err == nil {
			os.Stderr = dn
		}
	}
	cryptotest.SetGlobalRandom(t, seed)
	wall := realNow()
	res := &Result{Prop: prop, Tier: tier, Idx: idx, Seed: base, Scenario: map[string]any{}, Faults: map[string]int{}, Probes: map[string]int{}, Config: "clean"}
	exit := 0
	func() {
		defer func() {
			// synctest panics when the bubble's root returns while goroutines are still blocked; by then the
			// result has been printed and the process has exited, so this is only a safety net.
			if r := recover(); r != nil {
				fmt.Printf("HARNESS-ERROR panic outside scenario: %v\n", r)
				exit = 2
			}
		}()
		synctest.Test(t, func(t *testing.T) {
			s := NewSim(seed, tape)
			s.traceOn = true
			s.traceAll = *fTrace
			if rf != nil && rf.UsePre {
				s.explicitPre = true
				s.preSet = rf.Preempt
			}
			net := NewNet(s)
			disk := NewDisk(s, root)
			h := &Harness{T: t, S: s, Net: net, Disk: disk, Tape: tape, R: res, Root: ".", Tier: tier, Idx: idx}
			sniff := &panicSniffer{}
			log.SetOutput(sniff)
			verifhook.Impl = &hookImpl{s, disk}
			http.DefaultTransport = net
			func() {
				defer func() {
					if r := recover(); r != nil {
						if a, ok := r.(abortRun); ok {
							res.Scenario["aborted"] = a.why
							return
						}
						panic(r)
					}
				}()
				p.Run(h)
			}()
			// panics that the code under test recovered itself (the updater goroutine logs "[PANIC]" and ends)
			for _, p := range sniff.get() {
				h.Violation("engine.panic", "recovered:"+topRepoFrame(afterPanicFrame(p)), "a panic was recovered and logged by the code under test (the goroutine that recovered it has ended): %s", p)
			}
			res.Steps, res.Switches, res.SimNS = s.steps, s.switches, int64(s.Now())
			res.SchedFP = fmt.Sprintf("%016x", s.fp)
			for k, v := range s.stats {
				res.Faults[k] = v
			}
			sj, _ := json.Marshal(res.Scenario)
			sh := sha256.Sum256(sj)
			res.ScenFP = hex.EncodeToString(sh[:6])
			res.TraceHash = fmt.Sprintf("%016x-%d", s.traceH, s.traceN)
			if len(res.Violations) > 0 || *fFull {
				res.Tape = tape.Rec
				res.Preempt = s.firedPre
				tail := s.trace
				if len(tail) > 60 && !*fTrace {
					tail = tail[len(tail)-60:]
				}
				res.TraceTail = tail
			}
			if *fTrace {
				for _, l := range s.trace {
					fmt.Println("  ", l)
				}
			}
			res.WallMS = (realNow() - wall) / 1e6
			b, _ := json.Marshal(res)
			fmt.Printf("RESULT %s\n", b)
			os.RemoveAll(root)
			os.Exit(0)
		})
	}()
	os.RemoveAll(root)
	os.Exit(exit)
}

// realNow reads the real clock (time.Now is the fake clock inside a synctest bubble).
func realNow() int64 {
	var tv syscall.Timeval
	syscall.Gettimeofday(&tv)
	return tv.Sec*1e9 + tv.Usec*1e3
}

func scratchBase() string {
	if b := os.Getenv("VERIF_SCRATCH"); b != "" {
		os.MkdirAll(b, 0700)
		return b
	}
	return "/dev/shm"
}

type panicSniffer struct {
	mu   sync.Mutex
	hits []string
}

func (p *panicSniffer) Write(b []byte) (int, error) {
	if bytes.Contains(b, []byte("[PANIC]")) {
		p.mu.Lock()
		if len(p.hits) < 4 {
			s := string(b)
			if len(s) > 3000 {
				s = s[:3000]
			}
			p.hits = append(p.hits, s)
		}
		p.mu.Unlock()
	}
	return len(b), nil
}

func (p *panicSniffer) get() []string {
	p.mu.Lock()
	defer p.mu.Unlock()
	return append([]string(nil), p.hits...)
}

// afterPanicFrame cuts a logged stack down to the part below the runtime's panic frame.
func afterPanicFrame(s string) string {
	s = strings.ReplaceAll(s, "\\n", "\n")
	if i := strings.Index(s, "\npanic("); i >= 0 {
		return s[i:]
	}
	return s
}

type hookImpl struct {
	*Sim
	d *Disk
}

func (h *hookImpl) OpenLevelDB(path string, o *opt.Options) (*leveldb.DB, error, bool) {
	return h.d.OpenLevelDB(path, o)
}
func (h *hookImpl) OsOp(op string, paths ...string) error        { return h.d.OsOp(op, paths...) }
func (h *hookImpl) OsDone(op string, err error, paths ...string) { h.d.OsDone(op, err, paths...) }

func sortedKeys[V any](m map[string]V) []string {
	ks := make([]string, 0, len(m))
	for k := range m {
		ks = append(ks, k)
	}
	sort.Strings(ks)
	return ks
}

func itoa(i int) string { return strconv.Itoa(i) }
