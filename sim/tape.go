package verifsim

import (
	mrand "math/rand/v2"
)

// Tape is the single source of every choice of a run. Exploring: draws come from a PCG seeded by
// the run seed and are recorded. Replaying: draws are read back; past the end every draw is 0
// (= "no fault / keep running the same task / smallest size"), which is what makes zeroing and
// truncating the tape a shrink step.
type Tape struct {
	rng     *mrand.Rand
	Rec     []uint32
	replay  []uint32
	pos     int
	replayM bool
}

func NewTape(seed uint64) *Tape {
	return &Tape{rng: mrand.New(mrand.NewPCG(seed, 0x9E3779B97F4A7C15))}
}

func NewReplayTape(vals []uint32) *Tape {
	return &Tape{replay: vals, replayM: true}
}

// Int returns a value in [0,n). Every call consumes exactly one tape slot.
//
//go:norace
func (t *Tape) Int(n int) int {
	var v uint32
	if t.replayM {
		if t.pos < len(t.replay) && n > 1 {
			v = t.replay[t.pos] % uint32(n)
		}
		t.pos++
	} else if n > 1 {
		v = uint32(t.rng.IntN(n))
	}
	t.Rec = append(t.Rec, v)
	return int(v)
}

// Chance returns true with probability num/den; 0 on the tape means false.
//
//go:norace
func (t *Tape) Chance(num, den int) bool {
	if num <= 0 {
		t.Int(1)
		return false
	}
	v := t.Int(den)
	return v >= den-num
}

// Pick returns one of the options; option 0 is the "simplest".
func Pick[T any](t *Tape, opts ...T) T {
	return opts[t.Int(len(opts))]
}

// Weighted picks index i with weight w[i]; index 0 is the "simplest".
//
//go:norace
func (t *Tape) Weighted(w ...int) int {
	sum := 0
	for _, x := range w {
		sum += x
	}
	v := t.Int(sum)
	for i, x := range w {
		if v < x {
			return i
		}
		v -= x
	}
	return 0
}

// mix64 is a stateless hash used for choices that must not shift the shared tape
// (per-task preemption points, per-URL fault plans).
//
//go:norace
func mix64(a uint64, b string, c uint64) uint64 {
	h := a*0x9E3779B97F4A7C15 ^ (c+0x632BE59BD9B4E019)*0xBF58476D1CE4E5B9
	for i := 0; i < len(b); i++ {
		h = (h ^ uint64(b[i])) * 1099511628211
	}
	h ^= h >> 31
	h *= 0x94D049BB133111EB
	h ^= h >> 29
	return h
}

// Perm returns a permutation of 0..n-1 (all zeros on the tape = identity).
func (t *Tape) Perm(n int) []int {
	p := make([]int, n)
	for i := range p {
		p[i] = i
	}
	for i := 0; i < n-1; i++ {
		j := i + t.Int(n-i)
		p[i], p[j] = p[j], p[i]
	}
	return p
}
