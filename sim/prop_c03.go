package verifsim

import (
	"crypto/x509"
	"crypto/x509/pkix"
	"encoding/asn1"
	"fmt"
	"math/big"
	"strings"
	"time"
)

// C03 — Mode composition truth table. The full grid
//
//	mode(6) x OCSP outcome(4) x aia_strict(2) x CRL outcome(6) x cdp_strict(2) x storage(2) x chain shape(4) = 4608
//
// is one world per cell: the validator is built from JSON through Provision (so mode parsing and the
// default are part of what is checked), the responder and the CRL origin are scripted to produce
// the cell's outcomes, one handshake is made, and the verdict is compared with the documented
// predicate. The simulated network and disk give the side-effect oracles: which parties were
// contacted and whether the work_dir was touched.

var c03modes = []string{"", "prefer_ocsp", "prefer_crl", "ocsp_only", "crl_only", "disabled"}
var c03ocsp = []string{"no-aia", "good", "revoked", "unavailable"}
var c03crl = []string{"none-known", "listed", "not-listed", "cdp-unavailable", "internal-failure", "listed-configured"}
var c03chains = []string{"ee-ca", "ee-int-root", "two-chains", "leaf-only"}

const c03cells = 6 * 4 * 2 * 6 * 2 * 2 * 4 // = 4608

func init() {
	register(&PropDef{ID: "C03", Plan: func(tier string) Plan {
		if tier == "thorough" {
			return Plan{Runs: c03cells, Enumerated: c03cells, Exhaustive: true, Level: "exploration", Rule: c03rule}
		}
		return Plan{Runs: c03cells / 3, Enumerated: c03cells / 3, Level: "exploration", Rule: c03rule + " (quick: every 3rd cell with a drifting offset, a fixed 1/3 sample)"}
	}, Run: runC03})
}

const c03rule = "one run = one cell of mode(unset, prefer_ocsp, prefer_crl, ocsp_only, crl_only, disabled) x OCSP outcome(no AIA, good, revoked, unavailable) x aia_strict x CRL outcome(none known, listed, listed in a CONFIGURED list while the certificate names no distribution point, not listed, CDP unavailable, internal failure = the stored record of the listed certificate is undecodable at lookup time) x cdp_strict x storage(memory, disk) x chain shape(EE+CA, EE+intermediate+root, two chains, directly trusted leaf alone: for that shape only the CRL-side rejections are asserted, the CRL signer being configured); a fixed half of the cells have a past (OCSP caching on, the same certificate presented once before while its responder was down: nothing authentic was obtained, nothing may be remembered); oracle: reject iff (ocspOn and (revoked or (unavailable and aia_strict))) or (crlOn and (listed or listed-configured or internal failure or (cdp unavailable and cdp_strict))), plus side effects: disabled => no request and no work_dir operation after Provision, ocsp_only => no CRL origin contacted and work_dir untouched, crl_only => no responder contacted; non-trivial = the expected verdict is reject or a mechanism is disabled by the mode"

func runC03(h *Harness) {
	i := h.Idx
	if h.Tier != "thorough" {
		i = (h.Idx*3 + h.Idx/256) % c03cells // stride 3 with a drifting offset: all residues of every small dimension occur
	}
	cell0 := i
	mode := c03modes[i%6]
	i /= 6
	oc := c03ocsp[i%4]
	i /= 4
	aiaStrict := i%2 == 1
	i /= 2
	cr := c03crl[i%6]
	i /= 6
	cdpStrict := i%2 == 1
	i /= 2
	storage := []string{"memory", "disk"}[i%2]
	i /= 2
	chainShape := c03chains[i%4]
	sc := h.R.Scenario
	sc["mode"], sc["ocsp"], sc["aia_strict"], sc["crl"], sc["cdp_strict"], sc["storage"], sc["chain"] = mode, oc, aiaStrict, cr, cdpStrict, storage, chainShape

	// half of the cells (a fixed, hash-chosen half) have a PAST: OCSP caching is on and the same certificate was
	// presented once before while its responder was unreachable. Nothing authentic was obtained then, so nothing may
	// be remembered: the verdict of the cell's handshake is the table's.
	withPast := mix64(0xc03, "past", uint64(cell0))%2 == 1
	sc["past"] = withPast
	w := NewWorld(h, WorldOpts{Intermediate: chainShape != "ee-ca"})
	loc := w.NewLocation(LocOpts{Name: "L1", URL: "http://crl.sim/a.crl", Issuer: w.A, NVers: 1, Extra: 2, Width: 8})
	resp := w.NewResponder("http://ocsp.sim/a", w.A)
	cfg := NodeCfg{Mode: mode, Storage: storage, UpdateInterval: "10m", CDPStrict: cdpStrict, AIAStrict: aiaStrict}
	if withPast {
		cfg.OCSPCache = "10m"
	}
	if chainShape == "leaf-only" {
		// the client certificate itself is in the trust pool: the verified chain holds nothing but the leaf, so the
		// CRL's signer can only come from the configuration
		cfg.TrustedSigFiles = []string{h.WriteFile("trust/a.pem", CertPEM(w.A.Cert))}
	}
	crlOnCfg := mode == "" || mode == "prefer_ocsp" || mode == "prefer_crl" || mode == "crl_only"
	if cr == "listed-configured" && crlOnCfg {
		// the list is a configured one (crl_urls, its signer configured too); the certificate of the cell names no
		// distribution point at all: a configured CRL applies to every certificate of its issuer
		cfg.CRLUrls = []string{loc.URL}
		cfg.TrustedSigFiles = []string{h.WriteFile("trust/a.pem", CertPEM(w.A.Cert))}
	}
	n := h.NewNode("n1", cfg)
	if err := h.Provision(n); err != nil {
		h.Violation("C03.provision", "provision-failed:"+mode, "provisioning mode %q failed: %v", mode, err)
		return
	}
	h.Quiesce()
	if cr == "internal-failure" && crlOnCfg {
		// the list is loaded through another certificate first, then the stored record of the listed certificate is
		// damaged: the lookup of the cell's handshake meets an internal failure
		pre := w.A.Issue(EEOpts{Serial: loc.Never[1], CDP: []string{loc.URL}})
		pc := w.ChainFor(pre, w.A)
		if x := h.Handshake(n, "preload", pc); x.Err != nil && cdpStrict {
			h.Violation("C03.setup", "preload-failed", "fault-free strict first load failed: %v", x.Err)
			return
		}
		h.Quiesce()
		s := repoStore(n.Repo())
		if s == nil {
			h.Violation("C03.setup", "no-store", "cannot reach the loaded list's store")
			return
		}
		issuerRDN := &pkix.RDNSequence{}
		if _, err := asn1.Unmarshal(w.A.Cert.RawSubject, issuerRDN); err != nil {
			panic(err)
		}
		h.Call(n, "inject", func() {
			c09injectStore(h, s, nil, storage, "undecodable-value", issuerRDN.String()+"_"+loc.Common.String(), true)
		})
	}
	osAfterProv := len(h.Disk.OsLog)
	stAfterProv := h.Disk.StOps()
	// the certificate of the cell
	var serial *big.Int = loc.Never[0]
	var cdp, aia []string
	switch cr {
	case "none-known":
		cdp = []string{}
	case "listed":
		serial, cdp = loc.Common, []string{loc.URL}
	case "not-listed":
		cdp = []string{loc.URL}
	case "cdp-unavailable":
		cdp = []string{loc.URL}
		loc.State = oDown
	case "internal-failure":
		serial, cdp = loc.Common, []string{loc.URL}
	case "listed-configured":
		serial, cdp = loc.Common, []string{}
	}
	switch oc {
	case "no-aia":
	case "good":
		aia, resp.Status = []string{resp.URL}, rGood
	case "revoked":
		aia, resp.Status = []string{resp.URL}, rRevoked
	case "unavailable":
		aia, resp.State = []string{resp.URL}, oDown
	}
	cert := w.A.Issue(EEOpts{Serial: serial, CDP: cdp, OCSP: aia})
	chains := w.ChainFor(cert, w.A)
	if chainShape == "ee-ca" {
		chains = [][]*x509.Certificate{{cert, w.A.Cert}}
	}
	if chainShape == "two-chains" {
		chains = append(chains, chains[0])
	}
	if chainShape == "leaf-only" {
		chains = [][]*x509.Certificate{{cert}}
	}
	if withPast && len(aia) > 0 {
		st, status := resp.State, resp.Status
		resp.State = oDown
		h.Handshake(n, "past", chains)
		h.Quiesce()
		h.Settle(3 * time.Second)
		resp.State, resp.Status = st, status
	}
	hs := h.Handshake(n, "hs", chains)
	h.Quiesce()
	h.R.Checks++
	ocspOn := mode == "" || mode == "prefer_ocsp" || mode == "prefer_crl" || mode == "ocsp_only"
	crlOn := mode == "" || mode == "prefer_ocsp" || mode == "prefer_crl" || mode == "crl_only"
	reject := (ocspOn && (oc == "revoked" || (oc == "unavailable" && aiaStrict))) || (crlOn && (cr == "listed" || cr == "listed-configured" || cr == "internal-failure" || (cr == "cdp-unavailable" && cdpStrict)))
	if reject || !ocspOn || !crlOn {
		h.R.NonTrivial = true
	}
	verdict := errStr(hs.Err)
	cell := fmt.Sprintf("mode=%q ocsp=%s aia_strict=%v crl=%s cdp_strict=%v storage=%s chain=%s", mode, oc, aiaStrict, cr, cdpStrict, storage, chainShape)
	if chainShape == "leaf-only" {
		// without an issuer in the chain OCSP cannot be asked and an accept is not demanded; what the CRL side alone
		// requires still holds: listed / internal failure / strict without a CRL => reject
		crlReject := crlOn && (cr == "listed" || cr == "listed-configured" || cr == "internal-failure" || (cr == "cdp-unavailable" && cdpStrict))
		if crlReject && hs.Err == nil {
			modeClass := mode
			if mode == "" {
				modeClass = "unset"
			}
			h.Violation("C03.truth-table", "accepted-should-reject:"+modeClass+":leaf-only:crl="+cr, "cell %s: expected reject, got accept", cell)
		}
	} else if reject != (hs.Err != nil) {
		class := "accepted-should-reject"
		if !reject {
			class = "rejected-should-accept"
		}
		modeClass := mode
		if mode == "" {
			modeClass = "unset"
		}
		h.Violation("C03.truth-table", class+":"+modeClass+":ocsp="+oc+":crl="+cr, "cell %s: expected %s, got %s", cell, map[bool]string{true: "reject", false: "accept"}[reject], verdict)
	}
	// side effects
	var crlHits, ocspHits int
	for _, x := range h.Net.Hits[hs.NetAt:] {
		if strings.Contains(x.URL, "crl.sim") {
			crlHits++
		}
		if strings.Contains(x.URL, "ocsp.sim") {
			ocspHits++
		}
	}
	osOps := len(h.Disk.OsLog) - osAfterProv
	stOps := h.Disk.StOps() - stAfterProv
	if !crlOn && (crlHits > 0 || osOps > 0 || stOps > 0) {
		h.Violation("C03.side-effects", "crl-touched:"+mode, "cell %s: CRL checking is off in this mode, yet %d CRL origin requests, %d file operations and %d database operations happened during the handshake", cell, crlHits, osOps, stOps)
	}
	if !ocspOn && ocspHits > 0 {
		h.Violation("C03.side-effects", "ocsp-contacted:"+mode, "cell %s: OCSP is off in this mode, yet the responder was contacted %d times", cell, ocspHits)
	}
	if mode == "disabled" && len(h.Net.Hits) > 0 {
		h.Violation("C03.side-effects", "disabled-network", "mode disabled contacted the network: %d requests", len(h.Net.Hits))
	}
	if mode == "disabled" || mode == "ocsp_only" {
		if tree := h.TreeOf(n); len(tree) > 0 {
			h.Violation("C03.side-effects", "workdir-touched:"+mode, "mode %s left entries in the work_dir: %v", mode, tree)
		}
	}
	// the same certificate presented by three connections at once (cells whose rejection has a lasting cause: an
	// authentic 'revoked', a list in force that names the certificate): the composition holds for each of them,
	// whatever handshakes for one certificate share
	lasting := (ocspOn && oc == "revoked") || (crlOn && (cr == "listed" || cr == "listed-configured"))
	if lasting && chainShape != "leaf-only" && len(h.R.Violations) == 0 {
		h.S.pPre = (1 << 32) / 5
		var ts []*Task
		var calls []*HS
		for i := 0; i < 3; i++ {
			c := h.StartHandshake(n, fmt.Sprintf("hs-at-once%d", i), chains)
			calls, ts = append(calls, c), append(ts, c.Task)
		}
		h.Wait(ts...)
		h.Quiesce()
		h.R.Checks += 3
		for i, c := range calls {
			if c.Err == nil {
				modeClass := mode
				if mode == "" {
					modeClass = "unset"
				}
				h.Violation("C03.truth-table", "accepted-should-reject:"+modeClass+":at-once:ocsp="+oc+":crl="+cr, "cell %s: the certificate presented by three connections at once: connection %d was accepted, expected reject", cell, i+1)
				break
			}
		}
	}
	h.R.Sample = map[string]any{"cell": cell, "expected_reject": reject, "verdict": verdict, "crl_hits": crlHits, "ocsp_hits": ocspHits}
	h.Cleanup(n)
}
