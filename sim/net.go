package verifsim

import (
	"bytes"
	"errors"
	"fmt"
	"io"
	"net/http"
	"sync"
	"time"
)

// ---------------------------------------------------------------------------------------------
// Simulated network. http.DefaultTransport is replaced by *Net; CRL origins and OCSP responders
// are functions keyed by URL. Every RoundTrip is a scheduling decision point and is logged with
// simulated time and a global sequence number (the "hit log").
// ---------------------------------------------------------------------------------------------

const (
	dRefuse = iota // connection refused
	dReply         // status + body (possibly damaged in transit)
	dStall         // no answer for Delay, then connection reset
)

type Delivery struct {
	Kind    int
	Status  int
	Body    []byte
	Doc     string        // name of the ground-truth document the body was made from ("" = none)
	Intact  bool          // body equals the ground-truth document byte for byte
	Delay   time.Duration // before the response arrives
	Chunk   int           // body is delivered in reads of at most Chunk bytes (0 = unlimited)
	CutAt   int           // deliver only the first CutAt bytes (-1: all)
	CutErr  bool          // after the cut: true = connection reset error, false = clean EOF
	Note    string
	RespHdr http.Header
}

type NetHit struct {
	Seq     int
	T       time.Duration
	Task    string
	Node    string
	Method  string
	URL     string
	ReqBody []byte
	D       Delivery
}

type Handler func(hit *NetHit) Delivery

type Net struct {
	sim      *Sim
	mu       sync.Mutex
	handlers map[string]Handler
	Hits     []*NetHit
	// Fault, if set, may rewrite a delivery (transport-level faults: cut, corrupt, refuse, stall).
	Fault func(hit *NetHit, d *Delivery)
	// Unknown counts requests to URLs nobody serves.
	Unknown []string
}

func NewNet(s *Sim) *Net {
	n := &Net{sim: s, handlers: map[string]Handler{}}
	s.net = n
	return n
}

func (n *Net) Handle(url string, h Handler) {
	n.mu.Lock()
	n.handlers[url] = h
	n.mu.Unlock()
}

func (n *Net) HitsFor(url string) []*NetHit {
	n.mu.Lock()
	defer n.mu.Unlock()
	var out []*NetHit
	for _, h := range n.Hits {
		if h.URL == url {
			out = append(out, h)
		}
	}
	return out
}

func (n *Net) HitCount() int {
	n.mu.Lock()
	defer n.mu.Unlock()
	return len(n.Hits)
}

type netErr struct{ s string }

func (e *netErr) Error() string   { return e.s }
func (e *netErr) Timeout() bool   { return false }
func (e *netErr) Temporary() bool { return true }

func (n *Net) RoundTrip(req *http.Request) (*http.Response, error) {
	t := n.sim.self()
	if t != nil {
		if t.dying {
			n.sim.die(t)
		}
		n.sim.park(t, kNet, -1)
	}
	var body []byte
	if req.Body != nil {
		body, _ = io.ReadAll(req.Body)
		req.Body.Close()
	}
	url := req.URL.String()
	hit := &NetHit{T: n.sim.Now(), Method: req.Method, URL: url, ReqBody: body}
	if t != nil {
		hit.Task, hit.Node = t.Key, t.Node
	}
	n.mu.Lock()
	h := n.handlers[url]
	hit.Seq = len(n.Hits) + 1
	n.Hits = append(n.Hits, hit)
	n.mu.Unlock()
	var d Delivery
	if h == nil {
		n.mu.Lock()
		n.Unknown = append(n.Unknown, url)
		n.mu.Unlock()
		d = Delivery{Kind: dRefuse, CutAt: -1, Note: "no such host"}
	} else {
		d = h(hit)
	}
	if n.Fault != nil {
		n.Fault(hit, &d)
	}
	hit.D = d
	n.sim.stat("net." + []string{"refuse", "reply", "stall"}[d.Kind])
	n.sim.tracef("net %s %s -> kind=%d status=%d doc=%s intact=%v cut=%d note=%s", req.Method, url, d.Kind, d.Status, d.Doc, d.Intact, d.CutAt, d.Note)
	if d.Delay > 0 {
		time.Sleep(d.Delay)
		if t != nil {
			n.sim.park(t, kHit, -1)
		}
	}
	switch d.Kind {
	case dRefuse:
		return nil, &netErr{"dial tcp: connection refused (simulated)"}
	case dStall:
		return nil, &netErr{"read: connection reset by peer (simulated stall)"}
	}
	b := d.Body
	var tailErr error
	if d.CutAt >= 0 && d.CutAt < len(b) {
		b = b[:d.CutAt]
		if d.CutErr {
			tailErr = errors.New("unexpected EOF (simulated connection reset)")
		}
	}
	st := d.Status
	if st == 0 {
		st = 200
	}
	hdr := d.RespHdr
	if hdr == nil {
		hdr = http.Header{}
	}
	return &http.Response{
		Status: fmt.Sprintf("%d %s", st, http.StatusText(st)), StatusCode: st, Proto: "HTTP/1.1", ProtoMajor: 1, ProtoMinor: 1,
		Header: hdr, Body: &chunkBody{r: bytes.NewReader(b), chunk: d.Chunk, tail: tailErr}, ContentLength: -1, Request: req,
	}, nil
}

type chunkBody struct {
	r     *bytes.Reader
	chunk int
	tail  error
}

func (c *chunkBody) Read(p []byte) (int, error) {
	if c.chunk > 0 && len(p) > c.chunk {
		p = p[:c.chunk]
	}
	n, err := c.r.Read(p)
	if err == io.EOF && c.tail != nil {
		return n, c.tail
	}
	return n, err
}
func (c *chunkBody) Close() error { return nil }
