package verifsim

import (
	"errors"
	"fmt"
	"io"
	"os"
	"path/filepath"
	"runtime"
	"sort"
	"strings"
	"sync"
	"sync/atomic"
	"syscall"

	"github.com/syndtr/goleveldb/leveldb"
	"github.com/syndtr/goleveldb/leveldb/opt"
	"github.com/syndtr/goleveldb/leveldb/storage"
)

// ---------------------------------------------------------------------------------------------
// Simulated disk: every os.* call of the repository and every storage operation of goleveldb goes
// through here. Files are real files on tmpfs; operations are numbered, logged, confinement-
// checked and fault-injectable; a crash image is a recursive copy taken at a chosen operation.
// ---------------------------------------------------------------------------------------------

type OsRec struct {
	N     int
	Op    string
	Paths []string
	Node  string
	Task  string
	Err   string // injected or real error
	Inj   bool
}

type StRec struct {
	N    int
	Op   string
	File string
	Len  int
	Err  string
}

var (
	ErrIO    = &os.PathError{Op: "sim", Path: "", Err: syscall.EIO}
	ErrNoSpc = &os.PathError{Op: "sim", Path: "", Err: syscall.ENOSPC}
	ErrAcces = &os.PathError{Op: "sim", Path: "", Err: syscall.EACCES}
)

type Disk struct {
	sim  *Sim
	Root string // sandbox root; everything the run writes must live below it
	mu   sync.Mutex

	workdirs map[string]string // node -> work_dir
	OsLog    []OsRec
	osN      int
	Escapes  []string // write operations outside the node's work_dir

	// OsFault decides whether os operation number n fails (called with the task being current).
	OsFault func(n int, op string, paths []string, node string) error
	// crash before os operation number OsCrashAt executes (0: off)
	OsCrashAt int

	// storage (goleveldb) layer
	stMu      sync.Mutex
	StLog     []StRec
	stN       int64
	StFault   func(n int, op, file string, size int) (err error, short int)
	StReadBad func(n int, file string, off int64, p []byte) error // may corrupt p in place or return an error
	// snapshot the node's work_dir immediately before storage operation number StSnapAt (0: off)
	StSnapAt   int64
	StSnapTorn int    // for a write op: number of bytes of it that reach the file before the snapshot
	StSnapDir  string // source
	StSnapTo   string // destination
	StSnapDone bool
	// the same, counted only over the storage operations issued below a function whose name contains StSnapScope (the
	// k-th operation of, say, the store switch, however many operations the streaming before it took)
	StSnapScope   string
	StSnapScopeAt int64
	stScopeN      int64
	SmallWB       bool // open databases with a tiny write buffer so that table files and compactions exist
	KeepLog       bool
	openDBs       int64
	openPaths     map[string]int
	OpenedNames   map[string]bool // base names of every directory that was successfully opened as a database in this run
}

func NewDisk(s *Sim, root string) *Disk {
	d := &Disk{sim: s, Root: root, workdirs: map[string]string{}}
	s.disk = d
	return d
}

func (d *Disk) SetWorkDir(node, dir string) {
	d.mu.Lock()
	d.workdirs[node] = absClean(dir)
	d.mu.Unlock()
}

func isWriteOp(op string) bool {
	switch op {
	case "rename", "remove", "removeall", "mkdir", "mkdirall", "openfile-w", "create", "createtemp":
		return true
	}
	return false
}

func under(path, dir string) bool {
	path, dir = filepath.Clean(path), filepath.Clean(dir)
	if path == dir {
		return true
	}
	return strings.HasPrefix(path, dir+string(filepath.Separator))
}

func absClean(p string) string {
	a, err := filepath.Abs(p)
	if err != nil {
		return filepath.Clean(p)
	}
	return a
}

//go:norace
func (d *Disk) OsOp(op string, paths ...string) error {
	t := d.sim.self()
	node, key := "", ""
	if t != nil {
		if t.dying {
			d.sim.die(t)
		}
		if t.done {
			return nil
		}
		node, key = t.Node, t.Key
		d.mu.Lock()
		next := d.osN + 1
		d.mu.Unlock()
		if d.OsCrashAt != 0 && next == d.OsCrashAt && d.sim.crashTask == nil {
			d.sim.crashTask = t
			d.sim.park(t, kCrash, -1)
			return ErrIO // only reached if the scenario decided not to kill the node
		}
		d.sim.park(t, kOs, -1)
	}
	d.mu.Lock()
	d.osN++
	n := d.osN
	wd := d.workdirs[node]
	d.mu.Unlock()
	rec := OsRec{N: n, Op: op, Node: node, Task: key}
	for _, p := range paths {
		rec.Paths = append(rec.Paths, absClean(p))
	}
	if isWriteOp(op) && t != nil {
		chk := rec.Paths
		if op == "createtemp" {
			chk = rec.Paths[:1]
		}
		for _, p := range chk {
			if wd == "" || !under(p, wd) {
				d.mu.Lock()
				d.Escapes = append(d.Escapes, fmt.Sprintf("%s %s (node %s work_dir %s)", op, p, node, wd))
				d.mu.Unlock()
			}
		}
	}
	var err error
	if d.OsFault != nil && t != nil {
		err = d.OsFault(n, op, rec.Paths, node)
	}
	if err != nil {
		rec.Err, rec.Inj = err.Error(), true
		d.sim.stat("osfault." + op)
	}
	d.mu.Lock()
	d.OsLog = append(d.OsLog, rec)
	d.mu.Unlock()
	d.sim.tracef("os %d %s %v inj=%v", n, op, relPaths(rec.Paths, d.Root), err)
	return err
}

func relPaths(ps []string, root string) []string {
	out := make([]string, len(ps))
	for i, p := range ps {
		if r, err := filepath.Rel(root, p); err == nil && !strings.HasPrefix(r, "..") {
			out[i] = normName(r)
		} else {
			out[i] = normName(p)
		}
	}
	return out
}

// normName replaces random parts of temp names so that traces are comparable between runs.
func normName(p string) string {
	parts := strings.Split(p, string(filepath.Separator))
	for i, s := range parts {
		if len(s) >= 8 && strings.HasPrefix(s, "crl_") && strings.HasSuffix(s, "_tmp") {
			parts[i] = "crl_*_tmp"
		}
	}
	return strings.Join(parts, "/")
}

//go:norace
func (d *Disk) OsDone(op string, err error, paths ...string) {
	if err == nil {
		return
	}
	d.sim.tracef("os-result %s %v err=%v", op, relPaths(paths, d.Root), errClass(err))
}

func errClass(err error) string {
	switch {
	case err == nil:
		return ""
	case errors.Is(err, os.ErrNotExist):
		return "ENOENT"
	case errors.Is(err, os.ErrExist):
		return "EEXIST"
	case errors.Is(err, syscall.ENOTEMPTY):
		return "ENOTEMPTY"
	}
	return "ERR"
}

// ------------------------------------------------------------------------------- leveldb layer

//go:norace
func (d *Disk) OpenLevelDB(path string, o *opt.Options) (*leveldb.DB, error, bool) {
	t := d.sim.self()
	if t != nil {
		d.mu.Lock()
		wd := d.workdirs[t.Node]
		d.mu.Unlock()
		if wd == "" || !under(absClean(path), wd) {
			d.mu.Lock()
			d.Escapes = append(d.Escapes, fmt.Sprintf("leveldb-open %s (node %s work_dir %s)", absClean(path), t.Node, wd))
			d.mu.Unlock()
		}
	}
	st, err := storage.OpenFile(path, false)
	if err != nil {
		return nil, err, true
	}
	fs := &faultyStorage{Storage: st, d: d, path: path}
	if o == nil && d.SmallWB {
		o = &opt.Options{WriteBuffer: 2 << 10, CompactionTableSize: 4 << 10, BlockSize: 512, DisableBlockCache: true, OpenFilesCacheCapacity: -1}
	}
	db, err := leveldb.Open(fs, o)
	if err != nil {
		st.Close()
		return nil, err, true
	}
	atomic.AddInt64(&d.openDBs, 1)
	d.mu.Lock()
	if d.OpenedNames == nil {
		d.OpenedNames = map[string]bool{}
	}
	d.OpenedNames[filepath.Base(path)] = true
	if d.openPaths == nil {
		d.openPaths = map[string]int{}
	}
	d.openPaths[filepath.Base(path)]++
	d.mu.Unlock()
	return db, nil, true
}

type faultyStorage struct {
	storage.Storage
	d    *Disk
	path string
}

// op numbers a storage operation, takes the crash image if this is the chosen one, and asks the
// fault plan. Every storage operation (numbering and the file I/O itself) runs under stMu, so that an
// image — taken inline here or by Snapshot — is a consistent cut of the directory.
func (f *faultyStorage) op(name, file string, size int, torn func(n int)) (error, int) {
	d := f.d
	d.stN++
	n := d.stN
	if d.StSnapAt != 0 && n == d.StSnapAt && !d.StSnapDone {
		if torn != nil && d.StSnapTorn > 0 {
			torn(d.StSnapTorn)
		}
		d.StSnapDone = true
		if err := CopyTree(d.StSnapDir, d.StSnapTo); err != nil {
			panic("harness: snapshot failed: " + err.Error())
		}
	}
	if d.StSnapScope != "" && !d.StSnapDone && StackHas(d.StSnapScope) {
		d.stScopeN++
		if d.stScopeN == d.StSnapScopeAt {
			if torn != nil && d.StSnapTorn > 0 {
				torn(d.StSnapTorn)
			}
			d.StSnapDone = true
			if err := CopyTree(d.StSnapDir, d.StSnapTo); err != nil {
				panic("harness: snapshot failed: " + err.Error())
			}
		}
	}
	var err error
	short := 0
	if d.StFault != nil {
		err, short = d.StFault(int(n), name, file, size)
	}
	if d.KeepLog || err != nil {
		rec := StRec{N: int(n), Op: name, File: file, Len: size}
		if err != nil {
			rec.Err = err.Error()
		}
		d.StLog = append(d.StLog, rec)
	}
	if err != nil {
		d.sim.stat("stfault." + name)
	}
	return err, short
}

func (d *Disk) StOps() int64 {
	d.stMu.Lock()
	defer d.stMu.Unlock()
	return d.stN
}

type simLocker struct {
	storage.Locker
	f *faultyStorage
}

func (l simLocker) Unlock() {
	l.Locker.Unlock()
	l.f.Storage.Close() // releases the flock so that the same path can be opened again
	atomic.AddInt64(&l.f.d.openDBs, -1)
	l.f.d.mu.Lock()
	if l.f.d.openPaths[filepath.Base(l.f.path)]--; l.f.d.openPaths[filepath.Base(l.f.path)] <= 0 {
		delete(l.f.d.openPaths, filepath.Base(l.f.path))
	}
	l.f.d.mu.Unlock()
}

// OpenDatabases lists the base names of the directories that are currently open as databases.
func (d *Disk) OpenDatabases() []string {
	d.mu.Lock()
	defer d.mu.Unlock()
	var out []string
	for k := range d.openPaths {
		out = append(out, k)
	}
	sort.Strings(out)
	return out
}

func (f *faultyStorage) Lock() (storage.Locker, error) {
	l, err := f.Storage.Lock()
	if err != nil {
		return nil, err
	}
	return simLocker{l, f}, nil
}

func (f *faultyStorage) Close() error { return nil } // closed in Unlock (goleveldb calls Unlock, then never Close for a caller-supplied storage)

type simWriter struct {
	storage.Writer
	f    *faultyStorage
	file string
}

func (w simWriter) Write(p []byte) (int, error) {
	w.f.d.stMu.Lock()
	defer w.f.d.stMu.Unlock()
	done := 0
	err, short := w.f.op("write", w.file, len(p), func(n int) {
		if n > len(p) {
			n = len(p)
		}
		k, _ := w.Writer.Write(p[:n])
		done = k
	})
	if err != nil {
		if short > 0 && short < len(p) && done == 0 {
			k, _ := w.Writer.Write(p[:short])
			return k, err
		}
		return done, err
	}
	n, e := w.Writer.Write(p[done:])
	return n + done, e
}
func (w simWriter) Sync() error {
	w.f.d.stMu.Lock()
	defer w.f.d.stMu.Unlock()
	if err, _ := w.f.op("sync", w.file, 0, nil); err != nil {
		return err
	}
	return w.Writer.Sync()
}

type simReader struct {
	storage.Reader
	f    *faultyStorage
	file string
}

func (r simReader) ReadAt(p []byte, off int64) (int, error) {
	d := r.f.d
	d.stMu.Lock()
	defer d.stMu.Unlock()
	n, err := r.Reader.ReadAt(p, off)
	if d.StReadBad != nil {
		d.stN++
		k := d.stN
		if e := d.StReadBad(int(k), r.file, off, p[:n]); e != nil {
			d.sim.stat("stfault.readat")
			return 0, e
		}
	}
	return n, err
}

func (r simReader) Read(p []byte) (int, error) {
	d := r.f.d
	d.stMu.Lock()
	defer d.stMu.Unlock()
	n, err := r.Reader.Read(p)
	if d.StReadBad != nil && n > 0 {
		d.stN++
		k := d.stN
		if e := d.StReadBad(int(k), r.file, -1, p[:n]); e != nil {
			d.sim.stat("stfault.read")
			return 0, e
		}
	}
	return n, err
}

func (f *faultyStorage) Create(fd storage.FileDesc) (storage.Writer, error) {
	f.d.stMu.Lock()
	defer f.d.stMu.Unlock()
	if err, _ := f.op("create", fd.String(), 0, nil); err != nil {
		return nil, err
	}
	w, err := f.Storage.Create(fd)
	if err != nil {
		return nil, err
	}
	return simWriter{w, f, fd.String()}, nil
}
func (f *faultyStorage) Open(fd storage.FileDesc) (storage.Reader, error) {
	r, err := f.Storage.Open(fd)
	if err != nil {
		return nil, err
	}
	return simReader{r, f, fd.String()}, nil
}
func (f *faultyStorage) Rename(a, b storage.FileDesc) error {
	f.d.stMu.Lock()
	defer f.d.stMu.Unlock()
	if err, _ := f.op("rename", a.String()+"->"+b.String(), 0, nil); err != nil {
		return err
	}
	return f.Storage.Rename(a, b)
}
func (f *faultyStorage) Remove(a storage.FileDesc) error {
	f.d.stMu.Lock()
	defer f.d.stMu.Unlock()
	if err, _ := f.op("remove", a.String(), 0, nil); err != nil {
		return err
	}
	return f.Storage.Remove(a)
}
func (f *faultyStorage) SetMeta(a storage.FileDesc) error {
	f.d.stMu.Lock()
	defer f.d.stMu.Unlock()
	if err, _ := f.op("setmeta", a.String(), 0, nil); err != nil {
		return err
	}
	return f.Storage.SetMeta(a)
}

// ------------------------------------------------------------------------------------ helpers

// Snapshot copies a directory while no storage operation is in progress.
func (d *Disk) Snapshot(src, dst string) error {
	d.stMu.Lock()
	defer d.stMu.Unlock()
	return CopyTree(src, dst)
}

// StackHas reports whether a function whose name contains substr is on the calling goroutine's stack.
// Fault plans use it to aim a storage fault at a particular step of the code under test (for example the
// write issued by LevelDbStore.UpdateSignatureCertificate) without knowing its operation number.
func StackHas(substr string) bool {
	pcs := make([]uintptr, 64)
	n := runtime.Callers(2, pcs)
	frames := runtime.CallersFrames(pcs[:n])
	for {
		f, more := frames.Next()
		if strings.Contains(f.Function, substr) {
			return true
		}
		if !more {
			return false
		}
	}
}

// CopyTree copies a directory recursively (regular files and directories only).
func CopyTree(src, dst string) error {
	return filepath.Walk(src, func(p string, info os.FileInfo, err error) error {
		if err != nil {
			if os.IsNotExist(err) {
				return nil
			}
			return err
		}
		rel, _ := filepath.Rel(src, p)
		target := filepath.Join(dst, rel)
		if info.IsDir() {
			return os.MkdirAll(target, 0700)
		}
		if !info.Mode().IsRegular() {
			return nil
		}
		in, err := os.Open(p)
		if err != nil {
			if os.IsNotExist(err) {
				return nil
			}
			return err
		}
		defer in.Close()
		out, err := os.OpenFile(target, os.O_WRONLY|os.O_CREATE|os.O_TRUNC, 0600)
		if err != nil {
			return err
		}
		defer out.Close()
		_, err = io.Copy(out, in)
		return err
	})
}

// ListTree returns the sorted relative paths below dir (directories with a trailing slash).
func ListTree(dir string) []string {
	var out []string
	filepath.Walk(dir, func(p string, info os.FileInfo, err error) error {
		if err != nil || p == dir {
			return nil
		}
		rel, _ := filepath.Rel(dir, p)
		if info.IsDir() {
			rel += "/"
		}
		out = append(out, rel)
		return nil
	})
	sort.Strings(out)
	return out
}
