package verifsim

import (
	"fmt"
	"strings"
	"time"
)

// C16 — Signature policy means the same at provisioning, first load, refresh and restart.
// Matrix: signature mode {unset, verify, verify_log, none} x signer {resolvable from the chain,
// resolvable only from configuration, unknown, signature wrong} x intake path {configured CRL at
// provision, first CDP fetch, periodic refresh, refresh after restart, background first fetch retried after an outage} x backend = 160 cells, each a
// short history ending with pure probes.
//
//	verify / unset : a document that fails reference verification is never observed in force,
//	                 neither after the intake event nor after a restart.
//	verify_log/none: a parseable document is in force after the intake event (fault-free cell),
//	                 Provision succeeds, and a newer parseable document replaces it within 2 ticks.

var c16modes = []string{"", "verify", "verify_log", "none"}
var c16signers = []string{"chain", "config", "unknown", "wrong"}
var c16paths = []string{"provision", "first-cdp", "refresh", "refresh-after-restart", "first-cdp-background-retry"}

const c16cells = 4 * 4 * 5 * 2

func init() {
	register(&PropDef{ID: "C16", Plan: func(tier string) Plan {
		n := c16cells
		p := Plan{Runs: n, Enumerated: n, Exhaustive: true, Level: "exploration", Rule: "one run = one cell of signature mode {unset, verify, verify_log, none} x signer {resolvable from the chain, resolvable only from configuration, unknown, signature wrong} x intake path {configured CRL at provision, first CDP fetch, periodic refresh, refresh after restart, first CDP fetch in the background whose first attempt meets an unreachable origin and is retried by the refresh cycles} x backend {memory, disk}; a short fault-free history ending with pure probes (and, where the cell allows it, a clean restart with the origin down); non-trivial = the signer is not resolvable or the mode is not 'verify'"}
		if tier == "thorough" {
			p.Runs = c16cells * 6 // each cell under 6 seeds (key types, encodings, sizes)
			p.Enumerated = p.Runs
		}
		return p
	}, Run: runC16})
}

func runC16(h *Harness) {
	tp := h.Tape
	i := h.Idx % c16cells
	mode := c16modes[i%4]
	signer := c16signers[(i/4)%4]
	path := c16paths[(i/16)%5]
	backend := []string{"memory", "disk"}[(i/80)%2]
	sc := h.R.Scenario
	sc["sigmode"], sc["signer"], sc["path"], sc["backend"] = mode, signer, path, backend
	verify := mode == "" || mode == "verify"
	w := NewWorld(h, WorldOpts{RSA: h.Idx >= c16cells && tp.Chance(1, 3), Intermediate: tp.Chance(1, 2)})
	T := NewCA(nil, CAOpts{CN: "x", SubjectOf: w.A})
	loc := w.NewLocation(LocOpts{Name: "L1", URL: "http://crl.sim/a.crl", Issuer: w.A, NVers: 3, Extra: Pick(tp, 2, 30), Width: 8, PEM: h.Idx >= c16cells && tp.Chance(1, 2)})
	// re-sign every version according to the signer kind
	resign := func(k int, kind string) {
		c := *loc.Versions[k]
		c.AutoAlg = true
		switch kind {
		case "chain":
		case "config":
			c.Signer, c.SignerKey = T, nil
		case "unknown":
			c.Signer, c.SignerKey = w.Sib, nil
		case "wrong":
			c.BadSig = true
		}
		c.Build()
		loc.Versions[k] = &c
	}
	cfg := NodeCfg{Mode: "crl_only", Storage: backend, UpdateInterval: "10m", SigMode: mode, CDPStrict: true}
	if signer == "config" {
		cfg.TrustedSigFiles = []string{h.WriteFile("trust/t.pem", CertPEM(T.Cert))}
	}
	// is the document under test verifiable on this path?
	verifiable := signer == "chain" || signer == "config"
	if signer == "chain" && path == "provision" {
		verifiable = false // no presented chain exists at provisioning time and the issuer is not configured
	}
	if verifiable && verify {
		// plain case; still useful as a control
	} else {
		h.R.NonTrivial = true
	}
	cell := fmt.Sprintf("sigmode=%q signer=%s path=%s backend=%s", mode, signer, path, backend)
	eeSerial := loc.Never[0]
	chain := w.ChainFor(loc.Cert(eeSerial), w.A)
	noCDPchain := w.ChainFor(w.A.Issue(EEOpts{Serial: eeSerial, CDP: []string{}}), w.A)
	sigClass := func() string {
		m := mode
		if m == "" {
			m = "unset"
		}
		return m + ":" + signer + ":" + path
	}
	expectInForce := func(n *Node, ver int, when string) bool {
		p := loc.Pattern(n)
		h.R.Checks++
		sc["pattern_"+when] = p
		want := fmt.Sprintf("v%d", ver+1)
		if verify && !verifiable {
			if p == want || strings.HasPrefix(p, "other") {
				h.Violation("C16.verify-unverified-in-force", sigClass(), "cell %s: %s: a document that fails verification is in force (pattern %s)", cell, when, p)
			}
			return false
		}
		if !verify {
			if p != want {
				h.Violation("C16.lenient-mode-not-in-force", sigClass(), "cell %s: %s: under signature mode %q a parseable CRL must be accepted, but the probes show %s instead of %s", cell, when, mode, p, want)
				return false
			}
			return true
		}
		if p != want {
			// 'verify' means the same on every intake path: a correctly signed list whose signer can be resolved on this
			// path (from the presented chain or the configuration) and that arrives intact is accepted here as it is
			// on the other paths (nothing was made to fail in this cell)
			h.Probe("verifiable-not-in-force:" + path)
			h.Violation("C16.verify-verifiable-rejected", sigClass(), "cell %s: %s: under 'verify' a correctly signed CRL whose signer is resolvable on this path was not accepted: the probes show %s instead of %s", cell, when, p, want)
			return false
		}
		return true
	}
	var n *Node
	under := 0 // version index of the document under test
	switch path {
	case "provision":
		resign(0, signer)
		resign(1, signer)
		resign(2, signer)
		cfg.CRLUrls = []string{loc.URL}
		n = h.NewNode("n1", cfg)
		err := h.Provision(n)
		h.Quiesce()
		sc["provision_err"] = err != nil
		if err != nil {
			if !verify {
				h.Violation("C16.provision-failed", sigClass(), "cell %s: Provision failed although signature mode %q must accept a parseable configured CRL: %v", cell, mode, err)
			} else if verifiable {
				h.Violation("C16.provision-failed", sigClass(), "cell %s: Provision failed although the configured CRL verifies under a configured signer: %v", cell, err)
			}
			h.R.Sample = map[string]any{"cell": cell, "provision": "failed"}
			return
		}
		if !expectInForce(n, 0, "after-provision") {
			goto done
		}
	case "first-cdp":
		resign(0, signer)
		resign(1, signer)
		resign(2, signer)
		n = h.NewNode("n1", cfg)
		if err := h.Provision(n); err != nil {
			h.Violation("C16.setup", "provision-failed", "%v", err)
			return
		}
		hs := h.Handshake(n, "first", chain)
		h.Quiesce()
		sc["hs"] = errStr(hs.Err)
		if !verify && hs.Err != nil {
			h.Violation("C16.lenient-mode-not-in-force", sigClass(), "cell %s: strict handshake denied (%v) although signature mode %q must accept the parseable CRL", cell, hs.Err, mode)
		}
		if verify && !verifiable && hs.Err == nil {
			h.Violation("C16.verify-unverified-in-force", sigClass(), "cell %s: strict handshake accepted although the only CRL delivered fails verification", cell)
		}
		if !expectInForce(n, 0, "after-first-fetch") {
			goto done
		}
	case "first-cdp-background-retry":
		// fetch_background: the handshake only starts the load. The origin is unreachable then; it recovers, and the
		// refresh cycles have to load the list for the first time - under the same policy as everywhere else.
		resign(0, signer)
		resign(1, signer)
		resign(2, signer)
		cfg.FetchMode = "fetch_background"
		n = h.NewNode("n1", cfg)
		if err := h.Provision(n); err != nil {
			h.Violation("C16.setup", "provision-failed", "%v", err)
			return
		}
		loc.State = oDown
		h.Handshake(n, "first", chain)
		h.Settle(30 * time.Second)
		loc.State = oGood
		h.Settle(2*(10*time.Minute) + 40*time.Second)
		if !expectInForce(n, 0, "after-background-retries") {
			goto done
		}
	case "refresh", "refresh-after-restart":
		base := "chain"
		if signer == "config" {
			base = "config"
		}
		resign(0, base)
		resign(1, signer)
		resign(2, signer)
		under = 1
		n = h.NewNode("n1", cfg)
		if err := h.Provision(n); err != nil {
			h.Violation("C16.setup", "provision-failed", "%v", err)
			return
		}
		hs := h.Handshake(n, "first", chain)
		h.Quiesce()
		if hs.Err != nil || loc.Pattern(n) != "v1" {
			h.Violation("C16.setup", "base-load-failed", "cell %s: the verifiable first version was not accepted: %v", cell, hs.Err)
			return
		}
		if path == "refresh-after-restart" {
			h.Cleanup(n)
			h.Settle(6 * time.Minute)
			n = h.NewNodeOn("n1r", cfg, n.WorkDir)
			if err := h.Provision(n); err != nil {
				h.Violation("C16.setup", "reprovision-failed", "%v", err)
				return
			}
			loc.Cur = 1
			hs2 := h.Handshake(n, "learn", chain) // memory: this is a first fetch of v2; disk: the stored v1 is found
			h.Quiesce()
			_ = hs2
		}
		loc.Cur = 1
		h.Settle(2*(10*time.Minute) + 40*time.Second)
		if !expectInForce(n, 1, "after-refresh") {
			if verify && !verifiable && backend == "disk" || verify && !verifiable && path == "refresh" {
				// the previous, verified list must still be the one in force
				if p := loc.Pattern(n); p != "v1" {
					h.Violation("C16.verify-unverified-in-force", sigClass()+":previous-lost", "cell %s: after a refresh that failed verification the probes show %s, expected the previous list v1", cell, p)
				}
			}
			goto done
		}
	}
	// a later newer parseable document replaces the one under test within two ticks
	if !verify || verifiable {
		loc.Cur = under + 1
		h.Settle(2*(10*time.Minute) + 40*time.Second)
		p := loc.Pattern(n)
		sc["pattern_after-newer"] = p
		if p != fmt.Sprintf("v%d", under+2) {
			if !verify {
				h.Violation("C16.lenient-mode-not-refreshed", sigClass(), "cell %s: a newer parseable CRL was published but two refresh periods later the probes still show %s", cell, p)
			} else {
				h.Probe("verifiable-not-refreshed:" + path)
				h.Violation("C16.verify-verifiable-rejected", sigClass()+":later-refresh", "cell %s: under 'verify' a newer correctly signed CRL (signer resolvable as before) was published, but two refresh periods later the probes still show %s: the refresh path does not accept what the other paths accept", cell, p)
			}
		}
	}
done:
	// restart with the origin down: what counts as loaded must not include a document that failed verification
	if backend == "disk" && verify && !verifiable {
		h.Cleanup(n)
		h.Settle(6 * time.Minute)
		loc.State = oDown
		cfg2 := cfg
		cfg2.CRLUrls = nil
		m := h.NewNodeOn("n1x", cfg2, n.WorkDir)
		if err := h.Provision(m); err == nil {
			hs := h.Handshake(m, "post-restart", chain)
			h.Quiesce()
			_ = hs
			p := loc.Pattern(m)
			sc["pattern_after-restart"] = p
			bad := fmt.Sprintf("v%d", under+1)
			if p == bad || strings.HasPrefix(p, "other") {
				h.Violation("C16.verify-unverified-in-force", sigClass()+":after-restart", "cell %s: after a restart (origin down) a document that failed verification is in force (pattern %s)", cell, p)
			}
			n = m
		}
	}
	// lenient modes: what was accepted stays accepted across a restart (origin down): the policy means the same when
	// the stored list is found again as it did when the list came in
	// (not for the provisioning path: a configured URL is fetched again by Provision, which fails outright with the
	// origin down — no property speaks about that — and without it the location is a different one)
	if backend == "disk" && !verify && !n.Dead && path != "provision" {
		before := loc.Pattern(n)
		if strings.HasPrefix(before, "v") {
			h.Cleanup(n)
			h.Settle(6 * time.Minute)
			loc.State = oDown
			cfg2 := cfg
			cfg2.CRLUrls = nil
			m := h.NewNodeOn("n1z", cfg2, n.WorkDir)
			if err := h.Provision(m); err == nil {
				hs := h.Handshake(m, "post-restart", chain)
				h.Quiesce()
				p := loc.Pattern(m)
				h.R.Checks++
				sc["pattern_after-restart"] = p
				if p != before || hs.Err != nil {
					h.Violation("C16.lenient-mode-not-in-force", sigClass()+":after-restart", "cell %s: the list accepted under signature mode %q (pattern %s) is not in force after a restart with the origin down: pattern %s, strict handshake %v", cell, mode, before, p, hs.Err)
				}
				n = m
			}
			loc.State = oGood
		}
	}
	// the configuration decides who may sign a configured CRL — also after a restart: provisioning again on the
	// same work_dir WITHOUT the trusted signer must not let a list signed by that (now unconfigured) signer in
	if path == "provision" && signer == "config" && verify && !n.Dead {
		h.Cleanup(n)
		h.Settle(6 * time.Minute)
		cfg3 := cfg
		cfg3.TrustedSigFiles = nil
		last := len(loc.Versions) - 1
		loc.Cur, loc.State = last, oGood
		m := h.NewNodeOn("n1y", cfg3, n.WorkDir)
		err := h.Provision(m)
		h.Quiesce()
		sc["reprovision_without_trust_err"] = err != nil
		if err == nil {
			p := loc.Pattern(m)
			sc["pattern_after-reprovision-without-trust"] = p
			if p == fmt.Sprintf("v%d", last+1) {
				h.Violation("C16.verify-unverified-in-force", sigClass()+":reprovision-without-trusted-signer", "cell %s: after a restart without the trusted signer in the configuration, a newly fetched configured CRL signed by that signer came into force (pattern %s)", cell, p)
			}
		}
		n = m
	}
	_ = noCDPchain
	h.R.Sample = map[string]any{"cell": cell, "patterns": sc}
	h.Cleanup(n)
}
