package verifsim

import (
	"fmt"
	"path/filepath"
	"strings"
	"time"

	"github.com/gr33nbl00d/caddy-revocation-validator/verifhook"
)

// C12 — Crash consistency of disk storage.
//
// Cells: {first load, refresh} x {new list accepted, new list rejected}. For each cell the crash
// point runs over every statement boundary inside the CRL packages ("hit k"), every os.* operation
// ("os k") and every goleveldb storage operation ("st k", optionally with a torn append) that
// occurs while the load/refresh is in progress. At the crash point the work_dir is copied (process
// death: every completed syscall survives), the instance is killed, and a fresh validator is
// provisioned on the image with the origin down and crl_cdp_strict on.
//
// Oracle after restart: no crl_*_tmp artefact; the location is either not loaded (strict denies all
// probes), or answers exactly from the previously accepted list, or (only in an "accepted" cell)
// exactly from the new list. Anything else — a partial list, a rejected list, a list that was
// never complete — is a violation.

type c12cell struct {
	scenario string // first | refresh
	outcome  string // accepted | rejected
}

// the fifth cell: an acceptable refresh whose directory swap FAILS (renames return errors through all their retries),
// so that the crash points also cover the store's way back to the previous database
// the sixth cell: a first load driven by the UPDATER (the first handshake met an unreachable origin; the next refresh
// cycle loads the entry for the first time) of a list that fails verification
var c12cells = []c12cell{{"first", "accepted"}, {"first", "rejected"}, {"refresh", "accepted"}, {"refresh", "rejected"}, {"refresh", "swapfault"}, {"first-by-updater", "rejected"}, {"first-beside-updater", "accepted"}}

// "st-switch": the k-th storage operation issued by the store switch itself (LevelDbStore.Update), with a list of 2500
// entries: whatever the switch writes, it writes after thousands of operations of streaming
var c12kinds = []string{"hit", "os", "st", "st-torn", "st-switch"}

func c12dims(tier string) (perHit, perOs, perSt int) {
	if tier == "thorough" {
		return 1200, 120, 400
	}
	return 260, 60, 90
}

func c12switchPoints(tier string) int {
	if tier == "thorough" {
		return 120
	}
	return 40
}

func init() {
	register(&PropDef{ID: "C12", Plan: func(tier string) Plan {
		h, o, s := c12dims(tier)
		n := len(c12cells) * (h + o + 2*s + c12switchPoints(tier))
		return Plan{Runs: n, Enumerated: n, Level: "fault_enumeration", Rule: "one run = (cell in {first load, refresh} x {accepted, rejected}, a refresh whose directory swap fails, a rejected first load by the updater, and a first load by a handshake beside the updater's own half-streamed first load of the same location) x (crash-point kind in {statement boundary k inside the CRL packages, os.* operation k, goleveldb storage operation k, storage operation k with a torn append, the k-th storage operation issued by the store switch itself for a list of 2500 entries}) for k = 1..K; runs whose k lies past the end of the operation are counted as 'past-end' and show that the enumeration covered every point of that cell; after the crash a fresh validator is provisioned on the copied work_dir with the origin down and strict on; non-trivial = the crash point was reached"}
	}, Run: runC12})
}

var scopeCache []bool

func crlScope(site int) bool {
	if scopeCache == nil {
		scopeCache = make([]bool, len(verifhook.Sites))
		for i, s := range verifhook.Sites {
			f := s.File
			scopeCache[i] = strings.HasPrefix(f, "crl/crlrepository/") || strings.HasPrefix(f, "crl/crlstore/") || strings.HasPrefix(f, "crl/crlreader/") || strings.HasPrefix(f, "crl/crlloader/")
		}
	}
	return site >= 0 && site < len(scopeCache) && scopeCache[site]
}

func runC12(h *Harness) {
	hitN, osN, stN := c12dims(h.Tier)
	per := hitN + osN + 2*stN + c12switchPoints(h.Tier)
	cell := c12cells[h.Idx/per]
	off := h.Idx % per
	kind, k := "", 0
	switch {
	case off >= hitN+osN+2*stN:
		kind, k = "st-switch", off-hitN-osN-2*stN+1
	case off < hitN:
		kind, k = "hit", off+1
	case off < hitN+osN:
		kind, k = "os", off-hitN+1
	case off < hitN+osN+stN:
		kind, k = "st", off-hitN-osN+1
	default:
		kind, k = "st-torn", off-hitN-osN-stN+1
	}
	tp := h.Tape
	extra := 3
	if h.Tier == "thorough" {
		extra = Pick(tp, 3, 20, 60)
	}
	if cell.scenario == "first-beside-updater" {
		extra = 40 // long enough for the updater to be caught in the middle of it
	}
	if kind == "st-switch" {
		extra = 2500
	}
	smallWB := h.Tier == "thorough" && tp.Chance(1, 3)
	h.Disk.SmallWB = smallWB
	sc := h.R.Scenario
	sc["cell"], sc["kind"], sc["k"], sc["extra"], sc["smallwb"] = cell.scenario+"/"+cell.outcome, kind, k, extra, smallWB
	h.R.Config = "faulty"

	w := NewWorld(h, WorldOpts{})
	loc := w.NewLocation(LocOpts{Name: "L1", URL: "http://crl.sim/a.crl", Issuer: w.A, NVers: 2, Extra: extra, Width: 8})
	cfg := NodeCfg{Mode: "crl_only", Storage: "disk", UpdateInterval: "10m", SigMode: "verify", CDPStrict: true}
	n := h.NewNode("n1", cfg)
	if err := h.Provision(n); err != nil {
		h.Violation("C12.setup", "provision-failed", "%v", err)
		return
	}
	h.Quiesce()
	prev := -1 // version accepted before the operation under test
	newV := 0
	if cell.scenario == "refresh" {
		hs := h.Handshake(n, "load-v1", w.ChainFor(loc.Cert(loc.Never[0]), w.A))
		h.Quiesce()
		if hs.Err != nil || loc.Pattern(n) != "v1" {
			h.Violation("C12.setup", "first-load-failed", "fault-free first load failed: %v pattern %s", hs.Err, loc.Pattern(n))
			return
		}
		prev, newV = 0, 1
	}
	if cell.scenario == "first-by-updater" || cell.scenario == "first-beside-updater" {
		loc.State = oDown
		h.Handshake(n, "learn-while-down", w.ChainFor(loc.Cert(loc.Never[0]), w.A))
		h.Quiesce()
		loc.State = oGood
	}
	loc.Cur = newV
	if cell.outcome == "rejected" {
		loc.Variant = Pick(tp, "badsig", "stranger", "critext")
		if h.Tier != "thorough" {
			loc.Variant = []string{"badsig", "stranger", "critext"}[k%3]
		}
		sc["variant"] = loc.Variant
	}
	if cell.outcome == "swapfault" {
		// which step of the swap fails: 0 = moving the live database aside; 1 = moving the new one in (the way back
		// works); 2 = moving the new one in and the way back too (the store stays closed: lookups must fail)
		variant := k % 3
		sc["swapfault"] = []string{"move-aside", "move-in", "move-in+rollback"}[variant]
		toFinal := 0
		h.Disk.OsFault = func(nn int, op string, paths []string, node string) error {
			if op != "rename" || len(paths) < 2 {
				return nil
			}
			srcTmp, dstTmp := isTmpName(filepath.Base(paths[0])), isTmpName(filepath.Base(paths[1]))
			switch {
			case variant == 0 && !srcTmp && dstTmp:
				return ErrIO
			case variant >= 1 && srcTmp && !dstTmp:
				toFinal++
				if variant == 2 || toFinal <= 5 {
					return ErrIO
				}
			}
			return nil
		}
	}
	osK := k
	if cell.scenario == "first-beside-updater" {
		// the updater's own first load of the learnt location is under way: it has streamed part of the list into ITS
		// staging database (how much: a function of k) and gets no further for the time being, while a handshake loads
		// the same location, accepts the list and switches the store - the operation the crash point lands in. What the
		// updater left half-done is nobody's list
		var upd *Task
		savedPre := h.S.pPre
		h.S.pPre = (1 << 32) / 3 // the updater stops at statement boundaries, so that it can be caught in the middle
		h.S.Run(func(v schedView) bool {
			for _, t := range v.parked {
				if !t.client && strings.Contains(h.S.siteStr(t.site), "crl/crlreader/") {
					upd = t
					return true
				}
			}
			return false
		}, h.S.Now()+11*time.Minute)
		if upd == nil {
			h.Probe("updater-not-streaming")
		} else {
			prog := (k * 53) % 400
			if kind == "os" {
				// the handshake's whole operation is some ten os.* operations: each of them is combined with six
				// amounts of progress of the updater instead of counting on to sixty
				prog, osK = 40+((k-1)/10)*60, 1+(k-1)%10
			}
			target := h.S.steps + prog
			h.S.Run(func(v schedView) bool { return h.S.steps >= target || upd.done }, h.S.Now()+time.Minute)
			if upd.done {
				h.Probe("updater-finished-first")
			}
			upd.stallUntil = time.Now().Add(3 * time.Hour)
			sc["updater_steps"] = prog
		}
		h.S.pPre = savedPre
	}
	// arm the crash point
	h.S.crashScope = crlScope
	h.S.hitCount = 0
	baseOs := len(h.Disk.OsLog)
	baseSt := h.Disk.StOps()
	img := fmt.Sprintf("%s/sandbox/image_n1", h.Root)
	switch kind {
	case "hit":
		h.S.crashAtHit = int64(k)
	case "os":
		h.Disk.OsCrashAt = baseOs + osK
	case "st-switch":
		h.Disk.StSnapScope, h.Disk.StSnapScopeAt, h.Disk.StSnapDir, h.Disk.StSnapTo = "LevelDbStore).Update", int64(k), n.WorkDir, img
		if k%2 == 0 {
			h.Disk.StSnapTorn = 1 + tp.Int(40)
		}
	case "st", "st-torn":
		h.Disk.StSnapAt, h.Disk.StSnapDir, h.Disk.StSnapTo = baseSt+int64(k), n.WorkDir, img
		if kind == "st-torn" {
			h.Disk.StSnapTorn = 1 + tp.Int(40)
		}
	}
	// run the operation under test
	if cell.scenario == "first" || cell.scenario == "first-beside-updater" {
		hs := h.StartHandshake(n, "op", w.ChainFor(loc.Cert(loc.Never[0]), w.A))
		h.S.Run(func(v schedView) bool { return hs.Task.done || h.Disk.StSnapDone }, h.S.Now()+time.Hour)
	} else {
		h.S.Run(func(v schedView) bool { return h.Disk.StSnapDone }, h.S.Now()+11*time.Minute)
		if h.S.crashTask == nil && !h.Disk.StSnapDone {
			h.S.Run(func(v schedView) bool { return len(v.parked) == 0 || h.Disk.StSnapDone }, h.S.Now()+2*time.Minute)
		}
	}
	reached := h.S.crashTask != nil || h.Disk.StSnapDone
	h.S.crashAtHit, h.Disk.OsCrashAt = 0, 0
	h.Disk.OsFault = nil
	sc["reached"] = reached
	if !reached {
		h.Probe("past-end:" + cell.scenario + "/" + cell.outcome + ":" + kind)
		// the operation ran to completion; crash now (a crash after the operation is also a crash point)
	} else {
		h.R.NonTrivial = true
		h.Probe("crashpoint-reached:" + kind)
	}
	site := "-"
	if h.S.crashTask != nil {
		site = h.S.siteStr(h.S.crashTask.site)
	}
	sc["site"] = site
	image := h.Crash(n, "c")
	if h.Disk.StSnapDone {
		image = img
	}
	h.Disk.StSnapAt, h.Disk.StSnapScope = 0, ""
	h.S.crashScope = nil
	// restart on the image, origin down
	h.Settle(6 * time.Minute)
	loc.State = oDown
	m := h.NewNodeOn("m1", cfg, image)
	if err := h.Provision(m); err != nil {
		h.Violation("C12.restart-provision", "provision-failed-after-crash:"+kind, "provisioning on the crash image failed (%s %s k=%d site %s): %v", cell.scenario, cell.outcome, k, site, err)
		return
	}
	h.Quiesce()
	if tmp := tmpArtefacts(h.TreeOf(m)); len(tmp) > 0 {
		h.Violation("C12.temp-artefacts", "tmp-after-startup", "temporary artefacts remain after startup cleaning: %v (crash at %s %d, site %s)", tmp, kind, k, site)
	}
	// strict handshakes: the location is learnt again by the first of them
	probes := []struct {
		name string
		cert func() [][]any
	}{}
	_ = probes
	type pv struct{ class, verdict string }
	var vec []pv
	serials := map[string]any{}
	_ = serials
	classes := []string{"never", "common", "only-prev", "only-new"}
	for _, c := range classes {
		s := loc.Never[0]
		switch c {
		case "common":
			s = loc.Common
		case "only-prev":
			if prev < 0 {
				continue
			}
			s = loc.OnlyV[prev]
		case "only-new":
			s = loc.OnlyV[newV]
		}
		hs := h.Handshake(m, "post-"+c, w.ChainFor(loc.Cert(s), w.A))
		h.R.Checks++
		v := errStr(hs.Err)
		if hs.Err != nil && strings.Contains(hs.Err.Error(), "not loaded") {
			v = "not-loaded"
		}
		vec = append(vec, pv{c, v})
	}
	h.Quiesce()
	pat := loc.Pattern(m)
	var vs []string
	notLoaded, anyNL := true, false
	for _, x := range vec {
		vs = append(vs, x.class+"="+x.verdict)
		if x.verdict == "not-loaded" {
			anyNL = true
		} else {
			notLoaded = false
		}
	}
	desc := strings.Join(vs, ",")
	sc["post"] = desc + " pattern=" + pat
	want := func(ver int) string {
		var o []string
		for _, x := range vec {
			exp := "accept"
			switch x.class {
			case "common":
				exp = "revoked"
			case "only-prev":
				if ver == prev {
					exp = "revoked"
				}
			case "only-new":
				if ver == newV {
					exp = "revoked"
				}
			}
			o = append(o, x.class+"="+exp)
		}
		return strings.Join(o, ",")
	}
	ok := false
	switch {
	case notLoaded && pat == "none":
		ok = true
	case notLoaded && pat != "none":
		// strict gate says not loaded, but the store answers: entries of an unloaded store are consulted
		ok = false
	case anyNL:
		ok = false
	case prev >= 0 && desc == want(prev) && pat == fmt.Sprintf("v%d", prev+1):
		ok = true
	case cell.outcome != "rejected" && desc == want(newV) && pat == fmt.Sprintf("v%d", newV+1):
		ok = true
	}
	if !ok {
		class := "partial-or-mixed"
		switch {
		case cell.outcome == "rejected" && (strings.Contains(desc, "only-new=revoked") || pat == fmt.Sprintf("v%d", newV+1)):
			class = "rejected-list-loaded"
		case prev >= 0 && notLoaded:
			class = "previous-list-lost"
		case notLoaded:
			class = "unloaded-store-answers"
		}
		if prev >= 0 && notLoaded && pat == "none" {
			ok = true // handled above; kept for clarity
		}
		h.Violation("C12.post-crash-state", class+":"+cell.scenario+"/"+cell.outcome, "after a crash at %s %d (site %s) during %s (%s), the restarted validator (origin down, strict) answers %s, pure-probe pattern %s; allowed: not loaded%s%s", kind, k, site, cell.scenario, cell.outcome, desc, pat,
			map[bool]string{true: ", exactly v" + fmt.Sprint(prev+1), false: ""}[prev >= 0], map[bool]string{true: ", exactly v" + fmt.Sprint(newV+1), false: ""}[cell.outcome != "rejected"])
	}
	// whatever the crashed operation left in the work_dir besides databases the validator uses under that name is a
	// leftover artefact, whether or not its name matches the temporary pattern
	h.R.Checks++
	if stray := h.strayEntries(m.WorkDir, nil); len(stray) > 0 {
		h.Violation("C12.temp-artefacts", "stray-after-startup", "after restart, startup cleaning and re-learning the location the work_dir still holds entries that are no database of the validator: %v (crash at %s %d, site %s)", stray, kind, k, site)
	}
	h.R.Sample = map[string]any{"cell": cell.scenario + "/" + cell.outcome, "crash": fmt.Sprintf("%s %d", kind, k), "site": site, "post": desc, "pattern": pat}
	h.Cleanup(m)
}

func isTmpName(name string) bool {
	return len(name) >= 8 && strings.HasPrefix(name, "crl_") && strings.HasSuffix(name, "_tmp")
}
