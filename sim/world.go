package verifsim

import (
	"bytes"
	"crypto/x509"
	"fmt"
	"math/big"
	"strings"
	"time"
)

// ---------------------------------------------------------------------------------------------
// CRL world shared by the CRL-side properties: a small PKI, CRL locations with planned versions
// and probe serials that tell the versions apart, and origins whose state the scenario flips.
// ---------------------------------------------------------------------------------------------

type World struct {
	h    *Harness
	Root *CA // self-signed root
	Int  *CA // optional intermediate (nil: A is issued by Root)
	A    *CA // issuing CA
	B    *CA // second issuing CA, different DN, overlapping serials
	Sib  *CA // sibling: same DN as A, different key
	X    *CA // stranger: self-signed, unrelated DN
	Locs []*Location
}

const (
	oGood     = "good"      // serves Versions[Cur] intact
	oDown     = "down"      // connection refused
	oHTTP500  = "http500"   // status 500 with an HTML body
	oHTTP404  = "http404"   // status 404 with an HTML body
	oGarbage  = "garbage"   // 200 with random bytes
	oTrunc    = "truncated" // 200 with a prefix of the document, clean EOF
	oReset    = "reset"     // 200 with a prefix, then connection reset
	oEmpty    = "empty"     // 200 with an empty body
	oStall    = "stall"     // no answer for a while, then reset
	oWrongDoc = "wrongdoc"  // 200 with a certificate instead of a CRL
)

type Location struct {
	w        *World
	Name     string
	URL      string
	Issuer   *CA
	Versions []*CRLSpec
	Cur      int
	State    string
	CutAt    int // for truncated/reset
	Chunk    int
	// probes
	Common    *big.Int
	Neg       *big.Int   // a negative serial listed in every version
	OnlyV     []*big.Int // OnlyV[k] is listed in version k only
	Never     []*big.Int
	Fetches   int
	Variant   string // "" = authentic; otherwise a forged/odd variant of Versions[Cur] is served
	vcache    map[string]*CRLSpec
	pcache    map[string]*x509.Certificate
	SlowFirst time.Duration // delay of the first good delivery only
	StallFor  time.Duration // how long a request hangs in state oStall (default 20 s)
	HangFirst int           // the first HangFirst requests (counted by Fetches) are accepted and never answered
	FailFirst int           // the first FailFirst requests (counted by Fetches) are refused, whatever State says
}

// ProbeCert returns a real, parsed certificate (no CDP, no AIA) of the location's issuer with the
// given serial; observation probes use it so that they see exactly what a handshake would see.
func (l *Location) ProbeCert(serial *big.Int) *x509.Certificate {
	k := serial.String()
	if c, ok := l.pcache[k]; ok {
		return c
	}
	if l.pcache == nil {
		l.pcache = map[string]*x509.Certificate{}
	}
	c := l.Issuer.Issue(EEOpts{Serial: serial, CDP: []string{}})
	l.pcache[k] = c
	return c
}

// Doc returns the document currently published at the location (version Cur, variant applied).
func (l *Location) Doc() *CRLSpec {
	v := l.Versions[l.Cur]
	if l.Variant == "" {
		return v
	}
	key := fmt.Sprintf("%d/%s", l.Cur, l.Variant)
	if d, ok := l.vcache[key]; ok {
		return d
	}
	c := *v
	c.Name = v.Name + "+" + l.Variant
	switch l.Variant {
	case "badsig":
		c.BadSig = true
	case "stranger":
		c.Signer, c.SignerKey = l.w.X, nil
		c.AutoAlg = true
	case "sibling":
		c.Signer, c.SignerKey = l.w.Sib, nil
		c.AutoAlg = true
	case "indirect":
		// an indirect CRL: it additionally lists, as the LAST entry, a serial of ANOTHER issuer (B) that happens to equal
		// one of this location's never-listed serials. Refusing the list (critical extension not handled) or honouring
		// certificateIssuer are both fine; revoking the issuer's own certificate with that serial is not.
		other := l.w.B
		if l.Issuer == l.w.B {
			other = l.w.A
		}
		c.Indirect = other
		c.Entries = append(append([]CRLEntrySpec(nil), c.Entries...), CRLEntrySpec{Serial: l.Never[0], Date: epoch.Add(-time.Hour), HasExts: true, ExtDER: CertificateIssuerExt(other)})
	case "critext":
		c.CritUnknown = true
		if c.Version == 1 || c.NoExts {
			c.Version, c.NoExts = 2, false // an unknown critical extension needs a list that can carry extensions
		}
	case "alg-pss":
		c.Alg, c.AutoAlg = RSAPSSSHA256, false
	case "alg-ed25519":
		c.Alg, c.AutoAlg = ED25519, false
	case "alg-md5":
		c.Alg, c.AutoAlg = MD5RSA, false
	default:
		panic("harness: unknown variant " + l.Variant)
	}
	c.Build()
	if l.vcache == nil {
		l.vcache = map[string]*CRLSpec{}
	}
	l.vcache[key] = &c
	return &c
}

type WorldOpts struct {
	RSA          bool
	Intermediate bool
	KeyUsageOff  bool
	DNShapeA     int // shape of the issuing CAs' names (0: canonical)
	DNShapeB     int
}

func NewWorld(h *Harness, o WorldOpts) *World {
	w := &World{h: h}
	rsa := func(i int) int {
		if o.RSA {
			return i
		}
		return 0
	}
	w.Root = NewCA(nil, CAOpts{CN: "Sim Root", RSA: rsa(1)})
	parent := w.Root
	if o.Intermediate {
		w.Int = NewCA(w.Root, CAOpts{CN: "Sim Intermediate", RSA: rsa(2)})
		parent = w.Int
	}
	w.A = NewCA(parent, CAOpts{CN: "Sim Issuing A", RSA: rsa(3), NoKeyUse: o.KeyUsageOff, DNShape: o.DNShapeA})
	w.B = NewCA(parent, CAOpts{CN: "Sim Issuing B", RSA: rsa(4), DNShape: o.DNShapeB})
	w.Sib = NewCA(nil, CAOpts{CN: "x", SubjectOf: w.A, RSA: rsa(6)})
	w.X = NewCA(nil, CAOpts{CN: "Stranger X", RSA: rsa(5)})
	return w
}

// ChainFor returns the verified chain a TLS stack would hand over for ee issued by ca.
func (w *World) ChainFor(ee *x509.Certificate, ca *CA) [][]*x509.Certificate {
	chain := []*x509.Certificate{ee, ca.Cert}
	if ca == w.A || ca == w.B {
		if w.Int != nil {
			chain = append(chain, w.Int.Cert)
		}
		chain = append(chain, w.Root.Cert)
	}
	return [][]*x509.Certificate{chain}
}

type LocOpts struct {
	Name     string
	URL      string
	Issuer   *CA
	NVers    int
	Extra    int // additional filler entries per version
	Width    int // serial width in bytes
	PEM      bool
	CRLF     bool
	EntryExt bool
	Alg      SigAlg
	AutoAlg  bool
	AKI      int
	Base     uint32 // distinguishes serial spaces of different locations
	// version metadata a refresh must not key on: successive issues may share thisUpdate/nextUpdate (two issues within
	// one second), may carry no cRLNumber at all (v1, or v2 without crlExtensions), or a constant one
	SameTimes  bool
	NoNumber   int // 0: numbered; 1: v2 without crlExtensions; 2: v1
	SameNumber bool
}

// NewLocation plans NVers versions of a CRL. Version k lists: common, onlyV[k], fillers; later
// versions drop onlyV[k-1] (entries removed by a newer list) and add their own.
func (w *World) NewLocation(o LocOpts) *Location {
	l := &Location{w: w, Name: o.Name, URL: o.URL, Issuer: o.Issuer, State: oGood}
	if o.Width == 0 {
		o.Width = 8
	}
	if o.NoNumber == 2 {
		o.EntryExt = false // a v1 list has no extensions of any kind
	}
	if o.Width == 1 && o.Extra > 20 {
		o.Extra = 20
	}
	if o.Width == 2 && o.Extra > 10000 {
		o.Width = 8
	}
	ser := func(tag uint32) *big.Int {
		if o.Width < 4 {
			return SerialOfWidth(o.Width, 0, tag)
		}
		return SerialOfWidth(o.Width, byte(0x11+o.Base), o.Base<<20|tag)
	}
	l.Common = ser(5)
	for k := 0; k < o.NVers; k++ {
		l.OnlyV = append(l.OnlyV, ser(uint32(10+k)))
	}
	l.Never = []*big.Int{ser(7), new(big.Int).Add(l.Common, big.NewInt(1)), new(big.Int).Sub(l.Common, big.NewInt(1))}
	// every version also lists one NEGATIVE serial (a CA encoding sloppiness that exists in the wild); the positive
	// serial of the same magnitude is a different certificate and must never be reported revoked
	negAbs := ser(9)
	l.Never = append(l.Never, negAbs)
	l.Neg = new(big.Int).Neg(negAbs)
	for k := 0; k < o.NVers; k++ {
		spec := &CRLSpec{Name: fmt.Sprintf("%s.v%d", o.Name, k+1), Issuer: o.Issuer, Alg: o.Alg, AutoAlg: o.AutoAlg || o.Alg == 0 && isRSAKey(o.Issuer),
			ThisUpdate: epoch.Add(time.Duration(k) * time.Hour), NextUpdate: epoch.Add(time.Duration(k)*time.Hour + 7*24*time.Hour),
			Number: int64(k + 1), AKI: o.AKI, PEM: o.PEM, CRLF: o.CRLF}
		if o.SameTimes {
			spec.ThisUpdate, spec.NextUpdate = epoch, epoch.Add(7*24*time.Hour)
		}
		if o.SameNumber {
			spec.Number = 1
		}
		switch o.NoNumber {
		case 1:
			spec.NoExts = true
		case 2:
			spec.Version = 1
		}
		add := func(s *big.Int) {
			e := CRLEntrySpec{Serial: s, Date: epoch.Add(-time.Hour)}
			if o.EntryExt {
				e.HasExts, e.ExtDER = true, reasonExt(1+len(spec.Entries)%5)
			}
			spec.Entries = append(spec.Entries, e)
		}
		// onlyV first, common in the middle, fillers, so that first/middle/last positions are all probed
		add(l.OnlyV[k])
		for i := 0; i < o.Extra/2; i++ {
			add(ser(uint32(100 + i)))
		}
		add(l.Common)
		add(l.Neg)
		for i := o.Extra / 2; i < o.Extra; i++ {
			add(ser(uint32(100 + i)))
		}
		seen := map[string]bool{}
		for _, e := range spec.Entries {
			if seen[e.Serial.String()] {
				panic("harness: duplicate serial in generated CRL")
			}
			seen[e.Serial.String()] = true
		}
		for _, s := range l.Never {
			if seen[s.String()] {
				panic("harness: a 'never' probe is listed")
			}
		}
		spec.Build()
		if err := spec.CrossCheck(); err != nil {
			panic("harness: " + err.Error())
		}
		l.Versions = append(l.Versions, spec)
	}
	w.Locs = append(w.Locs, l)
	w.h.Net.Handle(o.URL, l.serve)
	return l
}

func isRSAKey(ca *CA) bool {
	_, ok := ca.Key.Public().(interface{ Size() int })
	return ok
}

func (l *Location) serve(hit *NetHit) Delivery {
	l.Fetches++
	d := Delivery{Kind: dReply, Status: 200, CutAt: -1, Chunk: l.Chunk}
	html := []byte("<html><body><h1>Service unavailable</h1></body></html>\n")
	if l.HangFirst > 0 && l.Fetches <= l.HangFirst {
		// the connection is accepted and nothing ever comes back
		d.Kind, d.Delay, d.Note = dStall, 200*time.Hour, "hangs for good"
		return d
	}
	if l.FailFirst > 0 && l.Fetches <= l.FailFirst {
		d.Kind, d.Note = dRefuse, "refused (first requests fail)"
		return d
	}
	switch l.State {
	case oGood:
		v := l.Doc()
		d.Body, d.Doc, d.Intact = append([]byte(nil), v.Bytes...), v.Name, true // (each delivery owns its bytes)
		if l.SlowFirst > 0 && l.Fetches == 1 {
			d.Delay = l.SlowFirst // the first requester is served slowly: a later requester overtakes it
		}
	case oDown:
		d.Kind = dRefuse
	case oHTTP500:
		d.Status, d.Body = 500, html
	case oHTTP404:
		d.Status, d.Body = 404, html
	case oGarbage:
		g := make([]byte, 300)
		for i := range g {
			g[i] = byte(mix64(uint64(i), l.URL, uint64(l.Fetches)))
		}
		d.Body = g
	case oTrunc, oReset:
		v := l.Doc()
		cut := l.CutAt
		if cut <= 0 || cut >= len(v.Bytes) {
			cut = len(v.Bytes) / 2
		}
		d.Body, d.Doc, d.CutAt, d.CutErr = append([]byte(nil), v.Bytes...), v.Name, cut, l.State == oReset
	case oEmpty:
		d.Body = nil
	case oStall:
		d.Kind, d.Delay = dStall, 20*time.Second
		if l.StallFor > 0 {
			d.Delay = l.StallFor
		}
	case oWrongDoc:
		d.Body = l.Issuer.Cert.Raw
	}
	d.Note = l.State
	return d
}

// Cert issues an end-entity certificate under the location's issuer that names the location as CDP.
func (l *Location) Cert(serial *big.Int, cdp ...string) *x509.Certificate {
	if cdp == nil {
		cdp = []string{l.URL}
	}
	return l.Issuer.Issue(EEOpts{Serial: serial, CDP: cdp})
}

// Pattern asks the validator, by pure probes, which version of this location it answers from:
// "none", "v<k>", or "other:<bits>" (anything that is not exactly one planned version).
func (l *Location) Pattern(n *Node) string {
	h := l.w.h
	var bits strings.Builder
	probe := func(s *big.Int) bool {
		r, err := h.PureProbeCert(n, l.ProbeCert(s))
		h.R.Checks++
		if err != nil {
			bits.WriteByte('E')
			return false
		}
		if r {
			bits.WriteByte('1')
		} else {
			bits.WriteByte('0')
		}
		return r
	}
	common := probe(l.Common)
	only := make([]bool, len(l.OnlyV))
	cnt, which := 0, -1
	for k, s := range l.OnlyV {
		only[k] = probe(s)
		if only[k] {
			cnt++
			which = k
		}
	}
	never := false
	for _, s := range l.Never {
		if probe(s) {
			never = true
		}
	}
	b := bits.String()
	switch {
	case strings.Contains(b, "E"):
		return "error:" + b
	case never:
		return "other:" + b
	case !common && cnt == 0:
		return "none"
	case common && cnt == 1:
		return fmt.Sprintf("v%d", which+1)
	}
	return "other:" + b
}

// Lists reports whether version k (0-based) of the location lists serial.
func (l *Location) Lists(k int, serial *big.Int) bool {
	if k < 0 || k >= len(l.Versions) {
		return false
	}
	return l.Versions[k].Lists(serial)
}

func isRevokedErr(err error) bool {
	return err != nil && strings.Contains(err.Error(), "client certificate was revoked")
}

func errStr(err error) string {
	if err == nil {
		return "accept"
	}
	if isRevokedErr(err) {
		return "revoked"
	}
	s := err.Error()
	if len(s) > 80 {
		s = s[:80]
	}
	return "error(" + s + ")"
}

func bytesEq(a, b []byte) bool { return bytes.Equal(a, b) }
