package verifsim

import (
	"bytes"
	"crypto"
	"crypto/ecdsa"
	"crypto/ed25519"
	"crypto/rand"
	"crypto/rsa"
	"crypto/x509"
	"crypto/x509/pkix"
	"encoding/asn1"
	"encoding/pem"
	"fmt"
	"math/big"
	"strings"
	"time"

	"golang.org/x/crypto/cryptobyte"
	cbasn1 "golang.org/x/crypto/cryptobyte/asn1"
)

// ---------------------------------------------------------------------------------------------
// Ground-truth documents. A CRLSpec is what the world *means*; Build serialises it. Oracles use
// the spec, never a re-parse of the bytes by the code under test.
// ---------------------------------------------------------------------------------------------

type SigAlg int

const (
	ECDSASHA256 SigAlg = iota
	ECDSASHA1
	ECDSASHA224
	ECDSASHA384
	ECDSASHA512
	RSASHA256
	RSASHA1
	RSASHA224
	RSASHA384
	RSASHA512
	RSAPSSSHA256 // unsupported by the validator
	ED25519      // unsupported
	MD5RSA       // unsupported
)

var sigAlgOID = map[SigAlg]asn1.ObjectIdentifier{
	ECDSASHA1: {1, 2, 840, 10045, 4, 1}, ECDSASHA224: {1, 2, 840, 10045, 4, 3, 1}, ECDSASHA256: {1, 2, 840, 10045, 4, 3, 2},
	ECDSASHA384: {1, 2, 840, 10045, 4, 3, 3}, ECDSASHA512: {1, 2, 840, 10045, 4, 3, 4},
	RSASHA1: {1, 2, 840, 113549, 1, 1, 5}, RSASHA224: {1, 2, 840, 113549, 1, 1, 14}, RSASHA256: {1, 2, 840, 113549, 1, 1, 11},
	RSASHA384: {1, 2, 840, 113549, 1, 1, 12}, RSASHA512: {1, 2, 840, 113549, 1, 1, 13},
	RSAPSSSHA256: {1, 2, 840, 113549, 1, 1, 10}, ED25519: {1, 3, 101, 112}, MD5RSA: {1, 2, 840, 113549, 1, 1, 4},
}

var sigAlgHash = map[SigAlg]crypto.Hash{
	ECDSASHA1: crypto.SHA1, ECDSASHA224: crypto.SHA224, ECDSASHA256: crypto.SHA256, ECDSASHA384: crypto.SHA384, ECDSASHA512: crypto.SHA512,
	RSASHA1: crypto.SHA1, RSASHA224: crypto.SHA224, RSASHA256: crypto.SHA256, RSASHA384: crypto.SHA384, RSASHA512: crypto.SHA512,
	RSAPSSSHA256: crypto.SHA256, MD5RSA: crypto.MD5,
}

func (a SigAlg) IsRSA() bool     { return a >= RSASHA256 && a <= RSAPSSSHA256 || a == MD5RSA }
func (a SigAlg) Supported() bool { return a <= RSASHA512 }
func (a SigAlg) String() string {
	return [...]string{"ecdsa-sha256", "ecdsa-sha1", "ecdsa-sha224", "ecdsa-sha384", "ecdsa-sha512", "rsa-sha256", "rsa-sha1", "rsa-sha224", "rsa-sha384", "rsa-sha512", "rsa-pss-sha256", "ed25519", "md5-rsa"}[a]
}

type CRLEntrySpec struct {
	Serial  *big.Int
	Date    time.Time
	ExtDER  []byte // optional: DER of crlEntryExtensions (SEQUENCE OF Extension)
	HasExts bool
}

type CRLSpec struct {
	Name        string // e.g. "L1.v2"
	Issuer      *CA    // CA whose *name* the CRL carries
	Signer      *CA    // CA whose *key* signs (== Issuer for an authentic CRL)
	SignerKey   crypto.Signer
	Alg         SigAlg
	AutoAlg     bool
	Version     int // 1 or 2 (0 = 2)
	ThisUpdate  time.Time
	NextUpdate  time.Time // zero: absent
	Number      int64     // -1: no cRLNumber extension
	AKI         int       // akiDefault...; only for v2
	NoExts      bool      // v2 without crlExtensions
	CritUnknown bool      // add an unknown critical extension
	Entries     []CRLEntrySpec
	PEM         bool
	CRLF        bool
	BadSig      bool                  // flip a bit of the signature value after signing
	SigOverride []byte                // use this signature value instead of signing (a signature replayed from another document)
	AlgOID      asn1.ObjectIdentifier // when set: the OID written into both AlgorithmIdentifiers (the signature is still made with Alg)
	AlgParams   int                   // with AlgOID: 0 = parameters absent, 1 = NULL
	Indirect    *CA                   // when set: a critical issuingDistributionPoint with indirectCRL=TRUE is added (the
	// caller appends entries whose certificateIssuer names this CA)
	RawIssuer []byte // when set: the DER of the issuer Name written into the tbsCertList
	AKIRaw    []byte // when set: the authorityKeyIdentifier extension value, verbatim
	Sig       []byte // built: the signature value

	DER   []byte // built
	Bytes []byte // as served (DER or PEM)
	TBS   []byte
}

func (c *CRLSpec) Lists(serial *big.Int) bool {
	for _, e := range c.Entries {
		if e.Serial.Cmp(serial) == 0 {
			return true
		}
	}
	return false
}

func reasonExt(code int) []byte {
	// crlEntryExtensions with reasonCode
	var b cryptobyte.Builder
	b.AddASN1(cbasn1.SEQUENCE, func(b *cryptobyte.Builder) {
		b.AddASN1(cbasn1.SEQUENCE, func(b *cryptobyte.Builder) {
			b.AddASN1ObjectIdentifier(asn1.ObjectIdentifier{2, 5, 29, 21})
			b.AddASN1OctetString([]byte{0x0a, 0x01, byte(code)})
		})
	})
	return b.BytesOrPanic()
}

func addTime(b *cryptobyte.Builder, t time.Time) {
	b.AddASN1UTCTime(t)
}

// Build serialises the CRL and signs it.
func (c *CRLSpec) Build() *CRLSpec {
	if c.Signer == nil {
		c.Signer = c.Issuer
	}
	key := c.SignerKey
	if key == nil {
		key = c.Signer.Key
	}
	if c.AutoAlg {
		switch key.(type) {
		case *rsa.PrivateKey:
			c.Alg = RSASHA256
		case ed25519.PrivateKey:
			c.Alg = ED25519
		default:
			c.Alg = ECDSASHA256
		}
	}
	if (c.CritUnknown || c.Indirect != nil) && (c.Version == 1 || c.NoExts) {
		c.Version, c.NoExts = 2, false // an unknown critical extension needs a list that can carry extensions
	}
	ver := c.Version
	if ver == 0 {
		ver = 2
	}
	algID := func(b *cryptobyte.Builder) {
		if c.AlgOID != nil {
			b.AddASN1(cbasn1.SEQUENCE, func(b *cryptobyte.Builder) {
				b.AddASN1ObjectIdentifier(c.AlgOID)
				if c.AlgParams == 1 {
					b.AddASN1NULL()
				}
			})
			return
		}
		b.AddASN1(cbasn1.SEQUENCE, func(b *cryptobyte.Builder) {
			b.AddASN1ObjectIdentifier(sigAlgOID[c.Alg])
			if c.Alg.IsRSA() && c.Alg != RSAPSSSHA256 {
				b.AddASN1NULL()
			}
		})
	}
	var tb cryptobyte.Builder
	tb.AddASN1(cbasn1.SEQUENCE, func(b *cryptobyte.Builder) {
		if ver >= 2 {
			b.AddASN1Int64(int64(ver - 1))
		}
		algID(b)
		if c.RawIssuer != nil {
			b.AddBytes(c.RawIssuer)
		} else {
			b.AddBytes(c.Issuer.Cert.RawSubject)
		}
		addTime(b, c.ThisUpdate)
		if !c.NextUpdate.IsZero() {
			addTime(b, c.NextUpdate)
		}
		if len(c.Entries) > 0 {
			b.AddASN1(cbasn1.SEQUENCE, func(b *cryptobyte.Builder) {
				for _, e := range c.Entries {
					b.AddASN1(cbasn1.SEQUENCE, func(b *cryptobyte.Builder) {
						b.AddASN1BigInt(e.Serial)
						addTime(b, e.Date)
						if e.HasExts {
							b.AddBytes(e.ExtDER)
						}
					})
				}
			})
		}
		if ver >= 2 && !c.NoExts {
			b.AddASN1(cbasn1.Tag(0).ContextSpecific().Constructed(), func(b *cryptobyte.Builder) {
				b.AddASN1(cbasn1.SEQUENCE, func(b *cryptobyte.Builder) {
					if c.AKIRaw != nil {
						b.AddASN1(cbasn1.SEQUENCE, func(b *cryptobyte.Builder) {
							b.AddASN1ObjectIdentifier(oidAKI)
							b.AddASN1OctetString(c.AKIRaw)
						})
					} else if c.AKI != akiAbsent {
						b.AddASN1(cbasn1.SEQUENCE, func(b *cryptobyte.Builder) {
							b.AddASN1ObjectIdentifier(oidAKI)
							b.AddASN1OctetString(AKIBytes(c.Signer, c.AKI))
						})
					}
					if c.Number >= 0 {
						b.AddASN1(cbasn1.SEQUENCE, func(b *cryptobyte.Builder) {
							b.AddASN1ObjectIdentifier(asn1.ObjectIdentifier{2, 5, 29, 20})
							var nb cryptobyte.Builder
							nb.AddASN1Int64(c.Number)
							b.AddASN1OctetString(nb.BytesOrPanic())
						})
					}
					if c.Indirect != nil {
						b.AddASN1(cbasn1.SEQUENCE, func(b *cryptobyte.Builder) {
							b.AddASN1ObjectIdentifier(asn1.ObjectIdentifier{2, 5, 29, 28}) // issuingDistributionPoint
							b.AddASN1Boolean(true)
							b.AddASN1OctetString([]byte{0x30, 0x03, 0x84, 0x01, 0xff}) // SEQUENCE { indirectCRL [4] TRUE }
						})
					}
					if c.CritUnknown {
						b.AddASN1(cbasn1.SEQUENCE, func(b *cryptobyte.Builder) {
							b.AddASN1ObjectIdentifier(asn1.ObjectIdentifier{2, 5, 29, 27}) // deltaCRLIndicator
							b.AddASN1Boolean(true)
							var nb cryptobyte.Builder
							nb.AddASN1Int64(1)
							b.AddASN1OctetString(nb.BytesOrPanic())
						})
					}
				})
			})
		}
	})
	tbs := tb.BytesOrPanic()
	c.TBS = tbs
	sig := SignTBS(key, c.Alg, tbs)
	if c.BadSig {
		sig = append([]byte(nil), sig...)
		sig[len(sig)-2] ^= 0x10
	}
	if c.SigOverride != nil {
		sig = append([]byte(nil), c.SigOverride...)
	}
	c.Sig = sig
	var ob cryptobyte.Builder
	ob.AddASN1(cbasn1.SEQUENCE, func(b *cryptobyte.Builder) {
		b.AddBytes(tbs)
		algID(b)
		b.AddASN1BitString(sig)
	})
	c.DER = ob.BytesOrPanic()
	c.Bytes = c.DER
	if c.PEM {
		c.Bytes = PEMEncode("X509 CRL", c.DER, c.CRLF)
	}
	return c
}

func PEMEncode(typ string, der []byte, crlf bool) []byte {
	p := pem.EncodeToMemory(&pem.Block{Type: typ, Bytes: der})
	if crlf {
		p = bytes.ReplaceAll(p, []byte("\n"), []byte("\r\n"))
	}
	return p
}

// SignTBS signs data with the given algorithm; for algorithm/key mismatches it returns a dummy
// signature of plausible length (the document is then simply not authentic).
func SignTBS(key crypto.Signer, alg SigAlg, data []byte) []byte {
	switch alg {
	case ED25519:
		if k, ok := key.(ed25519.PrivateKey); ok {
			return ed25519.Sign(k, data)
		}
		return bytes.Repeat([]byte{0x5a}, 64)
	}
	h := sigAlgHash[alg]
	hh := h.New()
	hh.Write(data)
	digest := hh.Sum(nil)
	switch k := key.(type) {
	case *ecdsa.PrivateKey:
		if alg.IsRSA() {
			return bytes.Repeat([]byte{0x5a}, 256)
		}
		sig, err := ecdsa.SignASN1(rand.Reader, k, digest)
		if err != nil {
			panic(err)
		}
		return sig
	case *rsa.PrivateKey:
		if !alg.IsRSA() {
			return []byte{0x30, 0x06, 0x02, 0x01, 0x01, 0x02, 0x01, 0x01}
		}
		if alg == RSAPSSSHA256 {
			sig, err := rsa.SignPSS(rand.Reader, k, h, digest, nil)
			if err != nil {
				panic(err)
			}
			return sig
		}
		sig, err := rsa.SignPKCS1v15(rand.Reader, k, h, digest)
		if err != nil {
			panic(err)
		}
		return sig
	}
	return bytes.Repeat([]byte{0x5a}, 64)
}

// AKIBytes builds an authorityKeyIdentifier extension value referring to ca.
func AKIBytes(ca *CA, form int) []byte {
	var b cryptobyte.Builder
	b.AddASN1(cbasn1.SEQUENCE, func(b *cryptobyte.Builder) {
		switch form {
		case akiDefault, akiBoth:
			b.AddASN1(cbasn1.Tag(0).ContextSpecific(), func(b *cryptobyte.Builder) { b.AddBytes(ca.Cert.SubjectKeyId) })
		case akiForeignKey:
			b.AddASN1(cbasn1.Tag(0).ContextSpecific(), func(b *cryptobyte.Builder) { b.AddBytes([]byte{0xde, 0xad, 0xbe, 0xef, 1, 2, 3, 4}) })
		}
		if form == akiSerialOnly || form == akiURISerial {
			if form == akiURISerial {
				b.AddASN1(cbasn1.Tag(1).ContextSpecific().Constructed(), func(b *cryptobyte.Builder) {
					b.AddASN1(cbasn1.Tag(6).ContextSpecific(), func(b *cryptobyte.Builder) { b.AddBytes([]byte("http://ca.sim/issuer")) })
				})
			}
			b.AddASN1(cbasn1.Tag(2).ContextSpecific(), func(b *cryptobyte.Builder) {
				b.AddBytes(ca.Cert.SerialNumber.Bytes())
			})
		}
		if form == akiIssuerSer || form == akiBoth {
			b.AddASN1(cbasn1.Tag(1).ContextSpecific().Constructed(), func(b *cryptobyte.Builder) {
				b.AddASN1(cbasn1.Tag(4).ContextSpecific().Constructed(), func(b *cryptobyte.Builder) {
					b.AddBytes(ca.Cert.RawIssuer)
				})
			})
			b.AddASN1(cbasn1.Tag(2).ContextSpecific(), func(b *cryptobyte.Builder) {
				b.AddBytes(ca.Cert.SerialNumber.Bytes())
			})
		}
	})
	return b.BytesOrPanic()
}

// CrossCheck parses the built DER with the standard library and compares it with the spec, so
// that a generator bug cannot masquerade as a defect of the code under test. Only called for
// documents in the standard profile (supported algorithm).
func (c *CRLSpec) CrossCheck() error {
	if c.Version == 1 {
		// crypto/x509.ParseRevocationList refuses v1 lists; encoding/asn1 over the classic pkix.CertificateList
		// structure is the whole-document reference decoder for them
		var cl pkix.CertificateList
		rest, err := asn1.Unmarshal(c.DER, &cl)
		if err != nil || len(rest) != 0 {
			return fmt.Errorf("generator: reference decoder cannot parse v1 list %s: %v", c.Name, err)
		}
		if cl.TBSCertList.Version != 0 || len(cl.TBSCertList.RevokedCertificates) != len(c.Entries) {
			return fmt.Errorf("generator: %s: version %d, %d entries, reference decoder sees %d", c.Name, cl.TBSCertList.Version, len(c.Entries), len(cl.TBSCertList.RevokedCertificates))
		}
		for i, e := range cl.TBSCertList.RevokedCertificates {
			if e.SerialNumber.Cmp(c.Entries[i].Serial) != 0 {
				return fmt.Errorf("generator: %s entry %d serial mismatch", c.Name, i)
			}
		}
		if !bytes.Equal(cl.TBSCertList.Raw, c.TBS) {
			return fmt.Errorf("generator: %s tbs mismatch", c.Name)
		}
		return nil
	}
	rl, err := x509.ParseRevocationList(c.DER)
	if err != nil {
		return fmt.Errorf("generator: stdlib cannot parse %s: %v", c.Name, err)
	}
	if len(rl.RevokedCertificateEntries) != len(c.Entries) {
		return fmt.Errorf("generator: %s has %d entries, stdlib sees %d", c.Name, len(c.Entries), len(rl.RevokedCertificateEntries))
	}
	for i, e := range rl.RevokedCertificateEntries {
		if e.SerialNumber.Cmp(c.Entries[i].Serial) != 0 {
			return fmt.Errorf("generator: %s entry %d serial mismatch", c.Name, i)
		}
	}
	if !bytes.Equal(rl.RawIssuer, c.Issuer.Cert.RawSubject) {
		return fmt.Errorf("generator: %s issuer mismatch", c.Name)
	}
	if !bytes.Equal(rl.RawTBSRevocationList, c.TBS) {
		return fmt.Errorf("generator: %s tbs mismatch", c.Name)
	}
	return nil
}

// VerifiesUnder is the reference signature check: does the signature over exactly the TBS bytes of
// der verify under cert's public key with the declared algorithm (supported algorithms only)?
func VerifiesUnder(der []byte, cert *x509.Certificate) bool {
	rl, err := x509.ParseRevocationList(der)
	if err != nil {
		return false
	}
	var alg SigAlg = -1
	// declared algorithm: outer signatureAlgorithm
	var outer struct {
		TBS asn1.RawValue
		Alg struct {
			OID    asn1.ObjectIdentifier
			Params asn1.RawValue `asn1:"optional"`
		}
		Sig asn1.BitString
	}
	if _, err := asn1.Unmarshal(der, &outer); err != nil {
		return false
	}
	for a, oid := range sigAlgOID {
		if oid.Equal(outer.Alg.OID) {
			alg = a
		}
	}
	if alg < 0 || !alg.Supported() {
		return false
	}
	h := sigAlgHash[alg].New()
	h.Write(rl.RawTBSRevocationList)
	digest := h.Sum(nil)
	switch pk := cert.PublicKey.(type) {
	case *ecdsa.PublicKey:
		if alg.IsRSA() {
			return false
		}
		return ecdsa.VerifyASN1(pk, digest, outer.Sig.RightAlign())
	case *rsa.PublicKey:
		if !alg.IsRSA() {
			return false
		}
		return rsa.VerifyPKCS1v15(pk, sigAlgHash[alg], digest, outer.Sig.RightAlign()) == nil
	}
	return false
}

func describeSerials(ss []*big.Int) string {
	var sb strings.Builder
	for i, s := range ss {
		if i > 0 {
			sb.WriteByte(',')
		}
		sb.WriteString(s.Text(16))
	}
	return sb.String()
}

// CertificateIssuerExt builds crlEntryExtensions holding a critical certificateIssuer extension that names ca: in an
// indirect CRL this entry (and those after it) speak about certificates issued by ca, not by the CRL's issuer.
func CertificateIssuerExt(ca *CA) []byte {
	var gn cryptobyte.Builder
	gn.AddASN1(cbasn1.SEQUENCE, func(b *cryptobyte.Builder) {
		b.AddASN1(cbasn1.Tag(4).ContextSpecific().Constructed(), func(b *cryptobyte.Builder) { b.AddBytes(ca.Cert.RawSubject) })
	})
	var b cryptobyte.Builder
	b.AddASN1(cbasn1.SEQUENCE, func(b *cryptobyte.Builder) {
		b.AddASN1(cbasn1.SEQUENCE, func(b *cryptobyte.Builder) {
			b.AddASN1ObjectIdentifier(asn1.ObjectIdentifier{2, 5, 29, 29})
			b.AddASN1Boolean(true)
			b.AddASN1OctetString(gn.BytesOrPanic())
		})
	})
	return b.BytesOrPanic()
}
