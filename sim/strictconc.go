package verifsim

import (
	"crypto/x509"
	"fmt"
	"path/filepath"
	"time"
)

// Concurrent strictness (C10): the history explorer issues handshakes one at a time, so a strict gate that gives way
// only while ANOTHER handshake is busy loading the same distribution point passes it. Here 2-5 strict handshakes for
// one CDP set overlap (a) while the origin fails or stalls — none may be accepted, the location has never been loaded —
// and (b) while the first good delivery is slow — each is either denied or exact, a listed serial is never accepted.

func strictConcRuns(tier string) int {
	if tier == "thorough" {
		return 400
	}
	return 48
}

// "switch-fails": the origin delivers a good list, but the store cannot switch to it (the live store's Update returns an
// error): the distribution point's CRL is still not in force
// "move-in-fails": the same one layer down (disk): the rename that moves the staged database into place fails through all
// its retries, the way back to the previous (empty) database works
var strictConcStates = []string{oDown, oStall, oHTTP500, oGarbage, oTrunc, oHTTP404, "switch-fails", "move-in-fails"}

func runStrictConcurrent(h *Harness, j int) {
	tp := h.Tape
	sc := h.R.Scenario
	backend := []string{"memory", "disk"}[j%2]
	state := strictConcStates[(j/2)%len(strictConcStates)]
	fetch := []string{"", "fetch_actively", "fetch_background"}[(j/16)%3]
	nh := 2 + tp.Int(4)
	pre := Pick(tp, 0, 50, 200, 400)
	h.S.pPre = uint64(pre) * (1 << 32) / 1000
	h.S.pDelayDen, h.S.delayFor = Pick(tp, 0, 5, 10), Pick(tp, 2*time.Second, 20*time.Second)
	h.S.pHoldDen, h.S.holdFor = Pick(tp, 0, 4, 8), Pick(tp, 2*time.Second, 10*time.Second)
	h.S.stallSteps = Pick(tp, 0, 30, 300)
	sc["scenario"], sc["backend"], sc["origin"], sc["fetch"], sc["handshakes"], sc["pre"] = "strict-concurrent", backend, state, fetch, nh, pre
	h.R.NonTrivial = true
	h.R.Config = "faulty"
	w := NewWorld(h, WorldOpts{Intermediate: tp.Chance(1, 2)})
	loc := w.NewLocation(LocOpts{Name: "L1", URL: "http://crl.sim/a.crl", Issuer: w.A, NVers: 2, Extra: Pick(tp, 2, 40), Width: 8})
	cdp := [][]string{{loc.URL}, {"http://dead.sim/x.crl", loc.URL}}[tp.Int(2)]
	cfg := NodeCfg{Mode: "crl_only", Storage: backend, UpdateInterval: "10m", SigMode: "verify", FetchMode: fetch, CDPStrict: true}
	n := h.NewNode("n1", cfg)
	if err := h.Provision(n); err != nil {
		h.Violation("C10.setup", "provision-failed", "%v", err)
		return
	}
	h.Quiesce()
	type call struct {
		hs     *HS
		listed bool
	}
	start := func(k int, tag string) []*call {
		var cs []*call
		for i := 0; i < k; i++ {
			s, listed := loc.Never[tp.Int(len(loc.Never))], false
			if tp.Chance(1, 2) {
				s, listed = loc.Common, true
			}
			cert := w.A.Issue(EEOpts{Serial: s, CDP: cdp})
			cs = append(cs, &call{hs: h.StartHandshake(n, fmt.Sprintf("%s%d", tag, i), w.ChainFor(cert, w.A)), listed: listed})
		}
		return cs
	}
	wait := func(cs []*call) {
		var ts []*Task
		for _, c := range cs {
			ts = append(ts, c.hs.Task)
		}
		h.Wait(ts...)
	}
	// (a) the origin fails: nothing has ever been loaded for this distribution point
	loc.State = state
	var ff *FaultyFactory
	if state == "switch-fails" {
		loc.State = oGood
		if repo := n.Repo(); repo != nil {
			ff = &FaultyFactory{Inner: repo.Factory}
			h.Call(n, "wrap-factory", func() { repo.Factory = ff })
			ff.SetPlan(func(m string, temporary bool) error {
				if m == "Update" && !temporary {
					return ErrIO
				}
				return nil
			})
		}
	}
	if state == "move-in-fails" {
		loc.State = oGood
		if backend == "disk" {
			aside := map[string]bool{} // where live databases were moved aside to: moving those back is the way back
			h.Disk.OsFault = func(nn int, op string, paths []string, node string) error {
				if op != "rename" || len(paths) != 2 {
					return nil
				}
				src, dst := isTmpName(filepath.Base(paths[0])), isTmpName(filepath.Base(paths[1]))
				switch {
				case !src && dst:
					aside[paths[1]] = true
				case src && !dst && !aside[paths[0]]:
					return ErrIO // every attempt to move a staged database into place fails while this phase lasts
				}
				return nil
			}
		} else {
			loc.State = oDown // (no directories to move in memory: the cell degenerates to an unreachable origin)
		}
	}
	a := start(nh, "fail")
	wait(a)
	if state == "move-in-fails" {
		h.Settle(30 * time.Second)
		h.Quiesce()
		h.Disk.OsFault = nil
	}
	if ff != nil {
		h.Settle(30 * time.Second)
		h.Quiesce()
		ff.SetPlan(nil)
		if ff.Fired > 0 {
			h.Probe("strict-concurrent:store-switch-failed")
		}
	}
	for i, c := range a {
		h.R.Checks++
		if c.hs.Err == nil {
			h.Violation("C10.strict-accept", "concurrent-first-load:"+state, "strict: handshake %d of %d overlapping handshakes for one distribution point was accepted although its origin only ever answered '%s' and no CRL of it ever came into force (fetch mode %q, backend %s)", i+1, nh, state, fetch, backend)
			break
		}
	}
	h.Settle(45 * time.Second)
	// (b) the origin recovers, the first good delivery is slow
	loc.State, loc.Fetches, loc.SlowFirst = oGood, 0, Pick(tp, 2*time.Second, 0, 5*time.Second)
	b := start(nh, "slow")
	wait(b)
	for i, c := range b {
		h.R.Checks++
		if c.listed && c.hs.Err == nil {
			h.Violation("C10.strict-accept", "concurrent-slow-load:listed-accepted", "strict: handshake %d for a listed serial, overlapping the first (slow) load of its distribution point, was accepted (fetch mode %q, backend %s)", i+1, fetch, backend)
			break
		}
	}
	h.Settle(2 * time.Minute)
	h.Quiesce()
	// (c) quiescent: loaded (actively) or loadable by now; verdicts are exact once the probes show v1
	if p := loc.Pattern(n); p == "v1" {
		c := start(nh, "after")
		wait(c)
		for _, x := range c {
			h.R.Checks++
			if x.listed != isRevokedErr(x.hs.Err) || (!x.listed && x.hs.Err != nil) {
				h.Violation("C10.strict-exact-after-load", "after-load", "with v1 observed in force a strict handshake (listed=%v) returned %v", x.listed, x.hs.Err)
				break
			}
		}
	} else {
		h.Probe("strict-concurrent:not-loaded-after-recovery:" + fetch)
	}
	h.R.Sample = map[string]any{"scenario": "strict-concurrent", "origin": state, "fetch": fetch, "backend": backend, "handshakes": nh}
	h.Cleanup(n)
}

// Lenient mode and an entry that was never loaded (C10): the first handshake for a distribution point meets an
// unreachable origin, so the entry exists with an empty store. From then on every lookup in that store would fail (the
// store-method seam makes GetCertRevocationStatus return an I/O error). Nothing of that CRL is in force, so nothing of it
// is consulted: a lenient handshake is not denied, a strict one is denied for the gate's reason.
func lenientUnloadedRuns(tier string) int { return 8 }

func runLenientUnloaded(h *Harness, j int) {
	sc := h.R.Scenario
	backend := []string{"memory", "disk"}[j%2]
	fetch := []string{"", "fetch_background"}[(j/2)%2]
	sc["scenario"], sc["backend"], sc["fetch"] = "lenient-unloaded-entry", backend, fetch
	h.R.NonTrivial, h.R.Config = true, "faulty"
	w := NewWorld(h, WorldOpts{})
	loc := w.NewLocation(LocOpts{Name: "L1", URL: "http://crl.sim/a.crl", Issuer: w.A, NVers: 1, Extra: 2, Width: 8})
	other := w.NewLocation(LocOpts{Name: "L2", URL: "http://crl2.sim/b.crl", Issuer: w.A, NVers: 1, Extra: 2, Width: 9, Base: 1})
	cfg := NodeCfg{Mode: "crl_only", Storage: backend, UpdateInterval: "10m", SigMode: "verify", FetchMode: fetch, CDPStrict: false}
	n := h.NewNode("n1", cfg)
	if err := h.Provision(n); err != nil {
		h.Violation("C10.setup", "provision-failed", "%v", err)
		return
	}
	repo := n.Repo()
	ff := &FaultyFactory{Inner: repo.Factory}
	h.Call(n, "wrap-factory", func() { repo.Factory = ff })
	// a healthy second location, loaded: lookups in ITS store keep working
	if x := h.Handshake(n, "load-other", w.ChainFor(other.Cert(other.Never[0]), w.A)); x.Err != nil {
		h.Violation("C10.lenient-deny", "lenient-deny:setup", "lenient: fault-free first use denied: %v", x.Err)
		return
	}
	h.Settle(5 * time.Second)
	if j >= 4 {
		// second kind: the origin is fine, but the store cannot switch to the list the first use delivered (one I/O
		// failure at the switch). The entry holds nothing in force; in lenient mode that is nobody's fault but the
		// validator's: no certificate is denied for it, now or after the updater has loaded the list
		sc["scenario"] = "lenient-first-switch-fails"
		failed := false
		ff.SetPlan(func(m string, temporary bool) error {
			if m == "Update" && !temporary && !failed {
				failed = true
				return ErrIO
			}
			return nil
		})
		h.Handshake(n, "first-use-switch-fails", w.ChainFor(loc.Cert(loc.Never[0]), w.A))
		ff.SetPlan(nil)
		if !failed {
			h.Probe("switch-fault-not-reached")
		}
		for round, wait := range []time.Duration{5 * time.Second, 11 * time.Minute} {
			h.Settle(wait)
			for _, c := range []struct {
				name   string
				chains [][]*x509.Certificate
			}{{"same-cdp", w.ChainFor(loc.Cert(loc.Never[0]), w.A)}, {"other-cdp", w.ChainFor(other.Cert(other.Never[0]), w.A)}, {"no-cdp", w.ChainFor(w.A.Issue(EEOpts{Serial: other.Never[0], CDP: []string{}}), w.A)}} {
				hs := h.Handshake(n, fmt.Sprintf("lenient-%s-%d", c.name, round), c.chains)
				h.R.Checks++
				if hs.Err != nil {
					h.Violation("C10.lenient-deny", "lenient-deny:after-failed-first-switch:"+c.name, "lenient: after the store switch of a first use failed once (I/O error), a certificate that no list names (%s, %s later) was denied: %v", c.name, wait, hs.Err)
					h.Cleanup(n)
					return
				}
			}
		}
		h.R.Sample = map[string]any{"scenario": "lenient-first-switch-fails", "backend": backend, "fetch": fetch, "switch_failed": failed}
		h.Cleanup(n)
		return
	}
	loc.State = oDown
	h.Handshake(n, "first-while-down", w.ChainFor(loc.Cert(loc.Never[0]), w.A))
	h.Settle(5 * time.Second)
	// lookups fail in every store that holds no CRL: the never-loaded entry's
	ff.failEmptyLookups = true
	for _, class := range []string{"never", "common"} {
		s := loc.Never[0]
		if class == "common" {
			s = loc.Common
		}
		hs := h.Handshake(n, "lenient-"+class, w.ChainFor(loc.Cert(s), w.A))
		h.R.Checks++
		if hs.Err != nil {
			h.Violation("C10.lenient-deny", "lenient-deny:unloaded-entry-consulted", "lenient: a certificate naming a distribution point whose CRL was never loaded (origin unreachable) was denied: %v - the store of an entry that holds nothing in force was consulted and its failure held against the certificate", hs.Err)
			break
		}
	}
	ff.failEmptyLookups = false
	h.R.Sample = map[string]any{"scenario": "lenient-unloaded-entry", "backend": backend, "fetch": fetch, "failed_lookups": ff.Fired}
	h.Cleanup(n)
}
