module verifsim

go 1.26.8

require (
	github.com/anishathalye/porcupine v1.3.0
	github.com/caddyserver/caddy/v2 v2.8.4
	github.com/gr33nbl00d/caddy-revocation-validator v0.0.0
	github.com/muesli/cache2go v0.0.0-20221011235721-518229cd8021
	github.com/syndtr/goleveldb v1.0.0
	go.uber.org/zap v1.27.0
	golang.org/x/crypto v0.23.0
)

replace github.com/gr33nbl00d/caddy-revocation-validator => ../repo
