#!/bin/bash
# usage: confirm_mutant.sh <agent worktree> <demo file (in _mutant)> <package dir for the demo> <go test -run regex> [extra go test args]
# Confirms in a fresh scratch worktree of /repo: patch applies; the repository's tests pass with it; the demo fails with it and passes without.
set -u
export GOFLAGS=-mod=mod GOPROXY=off GOSUMDB=off
WT=$1; DEMO=$2; PKG=$3; RUN=$4; shift 4
C=/tmp/confirm-$$
git -C /repo worktree add -q --detach $C HEAD || exit 2
trap 'git -C /repo worktree remove --force '$C' >/dev/null 2>&1' EXIT
cd $C
cp "$WT/_mutant/$DEMO" "$C/$PKG/" || exit 2
echo "--- demo WITHOUT the change"
go test -vet=off -count=1 -run "$RUN" "$@" ./$PKG/ 2>&1 | tail -4; a=${PIPESTATUS[0]}
git apply "$WT/_mutant/patch.diff" || { echo "patch does not apply"; exit 2; }
echo "--- demo WITH the change"
go test -vet=off -count=1 -run "$RUN" "$@" ./$PKG/ 2>&1 | tail -6; b=${PIPESTATUS[0]}
rm -f "$C/$PKG/$(basename $DEMO)"
echo "--- existing tests WITH the change"
go test -vet=off -count=1 ./... 2>&1 | grep -v "no test files" | grep -v "^ok" | tail -5; c=${PIPESTATUS[0]}
echo "RESULT demo-without=$a (want 0) demo-with=$b (want !=0) suite-with=$c (want 0)"
