#!/bin/bash
# Sensitivity suite: for every confirmed change in seeded/<id>/ apply patch.diff to a throw-away worktree of /repo
# and run the quick check of the property it breaks (plus the other checks listed in its meta.json "caught_by").
# Writes seeded/MATRIX.md (OUT=<file> elsewhere; ONLY=<regex> restricts the rows; matrixmerge.py merges partial tables). A row "MISSED" means the property's own check no longer detects that change.
cd "$(cd "$(dirname "$0")" && pwd)"
out=${OUT:-seeded/MATRIX.md}
echo "Every stored change applied to a throw-away worktree of /repo ($(git -C /repo rev-parse --short HEAD)) and run through the quick check of the property it breaks (checks as of /verif $(git rev-parse --short HEAD 2>/dev/null || echo snapshot), VERIF_SEED=1)." > $out.tmp
echo >> $out.tmp
echo "| seeded change | breaks | own check | other checks that also report it |" >> $out.tmp
echo "|---|---|---|---|" >> $out.tmp
for d in seeded/*/; do
  id=$(basename $d); [ -f $d/meta.json ] || continue
  [ -n "${ONLY:-}" ] && ! echo "$id" | grep -Eq "$ONLY" && continue
  prop=$(python3 -c "import json;print(json.load(open('$d/meta.json'))['breaks_property'])")
  others=$(python3 -c "import json;m=json.load(open('$d/meta.json'));print(' '.join(c for c in m['caught_by'] if c!=m['breaks_property']))")
  [ -n "${OWN_ONLY:-}" ] && others=""
  res=$(./seedcheck.sh $(pwd)/$d/patch.diff $prop $others 2>&1)
  own=$(echo "$res" | grep "^$prop " | grep -q "exit=1" && echo "caught" || echo "MISSED")
  oth=""
  for o in $others; do echo "$res" | grep "^$o " | grep -q "exit=1" && oth="$oth $o"; done
  sig=$(echo "$res" | grep "^$prop " | sed 's/.*:: //' | cut -d'|' -f1 | sed 's/oracle=//; s/ runs=.*//')
  echo "| $id | $prop | $own ($sig) |$oth |" >> $out.tmp
  echo "$id: $own"
done
mv $out.tmp $out
