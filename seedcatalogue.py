#!/usr/bin/env python3
# Writes seeded/CATALOGUE.md from seeded/*/meta.json: which confirmed change breaks which property, what it needs to
# manifest, which checks report it, and whether the property's own check had to be strengthened first.
import json, glob
rows = []
for f in sorted(glob.glob('/verif/seeded/*/meta.json')):
    rows.append(json.load(open(f)))
out = ["# Seeded changes (confirmed property-breaking changes that compile and keep the repository's 175 tests green)", "",
       "Every row was confirmed with `confirm_mutant.sh` (patch applies to /repo HEAD; the repository's suite passes with it; the",
       "demonstration test fails with it and passes without it) and then run through `seedcheck.sh` (quick tier, VERIF_SEED=1).",
       "`missed first` = the property's own check did not report the change when it was first tried; the note says what was added.", "",
       "| change | breaks | reported by | missed first | needs, to manifest | strengthening / note |", "|---|---|---|---|---|---|"]
for m in rows:
    out.append("| %s | %s | %s | %s | %s | %s |" % (m['id'], m['breaks_property'], ", ".join(m['caught_by']) or "-",
               ", ".join(m.get('missed_by_own_check_before_strengthening', [])) or "-", m['needs_to_manifest'].replace("|", "/"), (m.get('note') or "").replace("|", "/")))
n = len(rows); missed = sum(1 for m in rows if m.get('missed_by_own_check_before_strengthening'))
own = sum(1 for m in rows if m['breaks_property'] in m['caught_by'])
out += ["", "%d changes; %d are reported by their own property's check today; %d were missed by it when first tried and led to a strengthening." % (n, own, missed)]
open('/verif/seeded/CATALOGUE.md', 'w').write("\n".join(out) + "\n")
print(n, own, missed)
